/-
  Props/C19.lean — property C19: the convenience layer and the FFI layer are thin.

  `TemporalModel.Generated.Wrappers` is regenerated from /repo's working tree by tools/translate_wrappers.py on
  every run (translator tie): one row per wrapper method — its name, its parameters, the inner method it calls and
  the parameter each call argument is built from — plus the enum tables and the field maps of the FFI value structs.
  The theorems below are about *that* table: they are re-checked against what the code says now.
-/
import TemporalModel.Generated.Wrappers
namespace TemporalModel
open Generated

/-- The inner method a convenience wrapper must call: its own name + `_with_provider` (two irregular names). -/
def compiledCallee (w : Wrapper) : String :=
  if w.type == "Now" then w.name ++ "_with_provider_and_system_info"
  else if w.name == "with_plain_time" then "with_plain_time_and_provider"
  else w.name ++ "_with_provider"

/-- FFI constructors are called `create…` where the core says `new…`; everything else keeps its name. -/
def capiAlias : String → List String
  | "create" => ["new", "create"]
  | "try_create" => ["try_new"]
  | "create_with_overflow" => ["new_with_overflow"]
  | "try_create_with_overflow" => ["try_new_with_overflow", "new_with_overflow"]
  | n => [n]

/-- A wrapper is thin: it calls the method of the same name and passes its own parameters, each exactly once, in
    order — followed by the provider (convenience layer; `Now` first reads the system clock), or minus the
    output sink `write` (FFI layer). A convenience wrapper's body consists of exactly the lock acquisition and the
    forwarding call as its tail expression. -/
def thin (w : Wrapper) : Bool :=
  if w.layer == "compiled" then
    w.callee == compiledCallee w &&
      w.args == (if w.type == "Now" then ["lit:local"] ++ w.params ++ ["provider"] else w.params ++ ["provider"]) &&
      -- the body is: take the provider lock; forward: no statement in between that could rebind, filter or replace an
      -- argument or the result.  A `Now` function first defaults the zone and reads the clock (the instant it passes
      -- is a local, `lit:local`): one to three more statements, however they are grouped; what they compute is
      -- decided by the differential run (`w19_now`: the wrapper's answer lies between the core's answers for clock
      -- readings taken before and after it)
      (if w.type == "Now" then 3 ≤ w.stmts && w.stmts ≤ 5 else w.stmts == 2)
  else
    (capiAlias w.name).contains w.callee && w.args == w.params.filter (· != "write")

/-- Rows the translator reads in a different shape, audited by hand (each is matched *exactly*: any change to one of
    these methods changes its row and fails the theorem):
    * `get_for_bcp47_string` forwards to the byte-slice variant of the same lookup;
    * `PartialDuration::is_empty` converts and asks the core record;
    * `Duration::time/date`, `*::calendar` return a transparent view of the inner field of the same name;
    * `Instant::try_new` reassembles the two words of the 128-bit value before calling `try_new`;
    * `PlainDateTime::to_ixdtf_string` formats through the core method and copies the text into the sink. -/
def audited : List Wrapper := [
  ⟨"capi", "AnyCalendarKind", "get_for_bcp47_string", ["s"], "get_for_bcp47_bytes", ["s"], 0⟩,
  ⟨"capi", "PartialDuration", "is_empty", ["self"], "try_from", ["self"], 0⟩,
  ⟨"capi", "Duration", "time", [], "transparent_convert", ["self"], 0⟩,
  ⟨"capi", "Duration", "date", [], "transparent_convert", ["self"], 0⟩,
  ⟨"capi", "Instant", "try_new", ["ns"], "try_new", ["lit:local"], 0⟩,
  ⟨"capi", "PlainDate", "calendar", [], "transparent_convert", ["self"], 0⟩,
  ⟨"capi", "PlainDateTime", "calendar", [], "transparent_convert", ["self"], 0⟩,
  ⟨"capi", "PlainDateTime", "to_ixdtf_string", ["self", "options", "display_calendar", "write"], "?", [], 0⟩,
  ⟨"capi", "PlainMonthDay", "calendar", [], "transparent_convert", ["self"], 0⟩,
  ⟨"capi", "PlainYearMonth", "calendar", [], "transparent_convert", ["self"], 0⟩
]

/-- **C19 (wrappers).** Every method of the convenience layer and every exported FFI function calls the core method
of its own name with its own arguments in order — or is one of the ten audited rows. -/
theorem C19_wrappers_thin : wrappers.all (fun w => thin w || audited.contains w) = true := by decide +kernel

/-- No convenience wrapper is exempt: all of them satisfy the rule itself. -/
theorem C19_compiled_all_thin : (wrappers.filter (·.layer == "compiled")).all thin = true := by decide +kernel

/-- Each convenience accessor calls its own twin — in particular no two accessors share a callee. -/
theorem C19_compiled_callees_distinct :
    ((wrappers.filter (·.layer == "compiled")).map (fun w => (w.type, w.callee))).Nodup := by decide +kernel

/-- **C19 (enum conversions).** Every converted FFI enum has exactly the variants of the core enum it converts to,
in the same order, so the by-name conversion maps every variant to the variant of the same name. -/
theorem C19_enums_same_variants : enumMaps.all (fun e => e.ffiVariants == e.coreVariants) = true := by decide +kernel

/-- **C19 (value structs).** Every field of a converted FFI struct is filled from the field of the same name. -/
theorem C19_fields_same_name : fieldMaps.all (fun f => f.field == f.source) = true := by decide +kernel

/-- The tables are not empty (the translator found the layers). -/
theorem C19_tables_nonempty :
    40 ≤ (wrappers.filter (·.layer == "compiled")).length ∧ 150 ≤ (wrappers.filter (·.layer == "capi")).length ∧
    10 ≤ enumMaps.length ∧ 40 ≤ fieldMaps.length := by decide +kernel

end TemporalModel

#print axioms TemporalModel.C19_wrappers_thin
#print axioms TemporalModel.C19_compiled_all_thin
#print axioms TemporalModel.C19_compiled_callees_distinct
#print axioms TemporalModel.C19_enums_same_variants
#print axioms TemporalModel.C19_fields_same_name
#print axioms TemporalModel.C19_tables_nonempty
