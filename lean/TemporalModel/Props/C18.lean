/-
  Props/C18.lean — property C18: year-months and month-days are canonical and count whole months.
-/
import TemporalModel.Model.Partial
import TemporalModel.Lemmas.DateLemmas
import TemporalModel.Lemmas.SafeLemmas
namespace TemporalModel
open Greg

theorem clamp_one (hi : Int) (h : 1 ≤ hi) : clamp 1 1 hi = 1 := by
  unfold clamp; split <;> (try split) <;> omega

theorem isoDaysInMonth_ge (y m dm : Int) (h : isoDaysInMonth y m = .ok dm) : 28 ≤ dm := by
  unfold isoDaysInMonth at h
  split at h
  · cases h; omega
  · split at h
    · cases h; omega
    · split at h
      · generalize epochTimeToEpochYear (MS_PER_DAY * epochDaysForYear (y % 400 + 2000)) = yy at h
        have hm : mathematicalDaysInYear yy = .ok 365 ∨ mathematicalDaysInYear yy = .ok 366 ∨
            mathematicalDaysInYear yy = .panic := by
          unfold mathematicalDaysInYear; (repeat (any_goals split)) <;> simp
        rcases hm with e | e | e <;> rw [e] at h <;> simp only [Out.bind_ok, Out.bind_panic, Out.pure_eq_ok] at h <;>
          cases h <;> omega
      · cases h

/-- Regulating day 1 keeps day 1 (every month has a first day). -/
theorem regulate_day_one (y m : Int) (ov : Overflow) (r : IsoDate) (h : IsoDate.regulate y m 1 ov = .ok r) :
    r.day = 1 := by
  cases ov with
  | constrain =>
    rw [regulate_constrain] at h
    cases h
    have hb := dim_bounds y (clamp m 1 12)
    exact clamp_one _ (by omega)
  | reject =>
    rw [regulate_reject] at h
    split at h
    · cases h; rfl
    · cases h

/-- The year-month resolution always hands on day 1. -/
theorem resolvedFields_yearMonth_day (p : PartialDate) (ov : Overflow) (y m d : Int)
    (h : resolvedFieldsIso p ov .yearMonth = .ok (y, m, d)) : d = 1 := by
  unfold resolvedFieldsIso resolveDay at h
  cases h1 : eraYearIso p with
  | err k => rw [h1] at h; cases h
  | panic => rw [h1] at h; cases h
  | ok yy =>
    rw [h1] at h
    simp only [Out.bind_ok] at h
    cases h2 : resolveIsoMonth p ov with
    | err k => rw [h2] at h; cases h
    | panic => rw [h2] at h; cases h
    | ok c =>
      rw [h2] at h
      simp only [Out.bind_ok, decide_true, if_true] at h
      by_cases hov : ov = .constrain
      · simp only [hov, if_true] at h
        unfold constrainIsoDay at h
        cases h3 : isoDaysInMonth yy c.num with
        | err k => rw [h3] at h; cases h
        | panic => rw [h3] at h; cases h
        | ok dm =>
          rw [h3] at h
          simp only [Out.bind_ok, Out.pure_eq_ok] at h
          cases h
          exact clamp_one _ (by have := isoDaysInMonth_ge _ _ _ h3; omega)
      · simp only [hov, if_false] at h
        cases h3 : isoDaysInMonth yy c.num with
        | err k => rw [h3] at h; cases h
        | panic => rw [h3] at h; cases h
        | ok dm =>
          rw [h3] at h
          simp only [Out.bind_ok, Out.pure_eq_ok] at h
          split at h
          · simp only [Out.bind_ok] at h; cases h; rfl
          · cases h

/-- **Canonical hidden day**: a year-month built from a field record — whatever day the record carries —
    has reference day 1. -/
theorem C18_canonical_from_fields (p : PartialDate) (ov : Overflow) (r : IsoDate)
    (h : yearMonthFromPartial p ov = .ok r) : r.day = 1 := by
  unfold yearMonthFromPartial at h
  cases h1 : resolvedFieldsIso p ov .yearMonth with
  | err k => rw [h1] at h; cases h
  | panic => rw [h1] at h; cases h
  | ok ymd =>
    obtain ⟨y, m, d⟩ := ymd
    have hd := resolvedFields_yearMonth_day p ov y m d h1
    subst hd
    rw [h1] at h
    simp only [Out.bind_ok] at h
    unfold yearMonthNew at h
    simp only [Option.getD_some] at h
    cases h5 : IsoDate.regulate y m 1 ov with
    | err k => rw [h5] at h; cases h
    | panic => rw [h5] at h; cases h
    | ok iso =>
      rw [h5] at h
      simp only [Out.bind_ok] at h
      have := regulate_day_one _ _ _ _ h5
      split at h
      · cases h; exact this
      · cases h

/-- from a date, from `with`, and from year-month arithmetic: all go through the field route. -/
theorem C18_canonical_routes (d r : IsoDate) (p : PartialDate) (ov : Option Overflow) (du : Dur) (o : Overflow) :
    (dateToYearMonth d = .ok r → r.day = 1) ∧
    (∀ recv, yearMonthWith recv p ov = .ok r → r.day = 1) ∧
    (∀ recv, yearMonthAdd recv du o = .ok r → r.day = 1) := by
  refine ⟨?_, ?_, ?_⟩
  · intro h
    unfold dateToYearMonth at h
    cases h1 : ({ year := none, month := none, monthCode := none, day := none, era := false, eraYear := none } : PartialDate).withFallback
        d.year d.month d.day true <;> simp only [h1, Out.bind_ok, Out.bind_err, Out.bind_panic] at h <;> (try cases h)
    exact C18_canonical_from_fields _ _ _ h
  · intro recv h
    unfold yearMonthWith at h
    cases h1 : p.withFallback recv.year recv.month recv.day false <;>
      simp only [h1, Out.bind_ok, Out.bind_err, Out.bind_panic] at h <;> (try cases h)
    exact C18_canonical_from_fields _ _ _ h
  · intro recv h
    unfold yearMonthAdd at h
    cases h0 : timeFromNormalized du.timeNs .day <;> simp only [h0, Out.bind_ok, Out.bind_err, Out.bind_panic] at h <;> (try cases h)
    split at h
    · cases h
    · cases h1 : partialOfYearMonth recv <;> simp only [h1, Out.bind_ok, Out.bind_err, Out.bind_panic] at h <;> (try cases h)
      rename_i pp
      cases h2 : dateFromPartial pp o <;> simp only [h2, Out.bind_ok, Out.bind_err, Out.bind_panic] at h <;> (try cases h)
      rename_i inter
      cases h3 : plainDateAdd inter du o <;> simp only [h3, Out.bind_ok, Out.bind_err, Out.bind_panic] at h <;> (try cases h)
      rename_i added
      cases h4 : ({ year := none, month := none, monthCode := none, day := none, era := false, eraYear := none } : PartialDate).withFallback
          added.year added.month added.day true <;> simp only [h4, Out.bind_ok, Out.bind_err, Out.bind_panic] at h <;> (try cases h)
      exact C18_canonical_from_fields _ _ _ h

/-- **Month-days carry reference year 1972** unless the low-level constructor names another year. -/
theorem C18_canonical_month_day (m d : Int) (ov : Overflow) (r : IsoDate)
    (h : monthDayNew m d ov none = .ok r) : r.year = 1972 := by
  unfold monthDayNew IsoDate.newWithOverflow at h
  simp only [Option.getD_none] at h
  cases ov with
  | constrain =>
    rw [regulate_constrain] at h
    simp only [Out.bind_ok] at h
    split at h
    · cases h; rfl
    · cases h
  | reject =>
    rw [regulate_reject] at h
    split at h
    · simp only [Out.bind_ok] at h
      split at h
      · cases h; rfl
      · cases h
    · cases h

/-- The first of a month, from the field record year-month arithmetic builds. -/
theorem fromPartial_first (y m : Int) (ov : Overflow) (hm : 1 ≤ m ∧ m ≤ 12) (hr : InRange ⟨y, m, 1⟩) :
    dateFromPartial ⟨some y, some m, some ⟨m.toNat, false⟩, some 1, false, none⟩ ov = .ok ⟨y, m, 1⟩ := by
  have hnat : ((m.toNat : Nat) : Int) = m := by omega
  have hdim := C01_days_in_month y m hm.1 hm.2
  have hb := dim_bounds y m
  have hnew := newWithOverflow_of_inRange ⟨y, m, 1⟩ ov hr
  unfold dateFromPartial resolvedFieldsIso eraYearIso resolveIsoMonth resolveIsoMonthCode resolveDay
    MonthCode.validateIso constrainIsoDay
  have hv : (1 ≤ m.toNat ∧ m.toNat ≤ 12) := by omega
  have h11 : (1 : Int) ≤ 1 ∧ 1 ≤ dim y m := by omega
  cases ov with
  | constrain =>
    simp only [hnat, ne_eq, not_true_eq_false, if_false, Out.bind_ok, Bool.false_eq_true, hdim, Out.pure_eq_ok,
      Bool.not_false, hv, and_self, if_true, reduceCtorEq, decide_false, clamp_one _ (by omega : 1 ≤ dim y m)]
    exact hnew
  | reject =>
    simp only [hnat, ne_eq, not_true_eq_false, if_false, Out.bind_ok, Bool.false_eq_true, hdim, Out.pure_eq_ok,
      Bool.not_false, hv, and_self, if_true, reduceCtorEq, decide_false, h11]
    exact hnew

/-- A year-month from the fields of a date: the date's year and month, day 1. -/
theorem yearMonthFromPartial_of_date (a : IsoDate) (ov : Overflow) (hm : 1 ≤ a.month ∧ a.month ≤ 12) :
    yearMonthFromPartial ⟨some a.year, none, some ⟨a.month.toNat, false⟩, some a.day, false, none⟩ ov =
      yearMonthNew a.year a.month (some 1) ov := by
  have hnat : ((a.month.toNat : Nat) : Int) = a.month := by omega
  have hdim := C01_days_in_month a.year a.month hm.1 hm.2
  have hb := dim_bounds a.year a.month
  have hv : (1 ≤ a.month.toNat ∧ a.month.toNat ≤ 12) := by omega
  unfold yearMonthFromPartial resolvedFieldsIso eraYearIso resolveIsoMonth resolveIsoMonthCode resolveDay
    MonthCode.validateIso constrainIsoDay
  have h11 : (1 : Int) ≤ 1 ∧ 1 ≤ dim a.year a.month := by omega
  cases ov with
  | constrain =>
    simp only [Out.bind_ok, Bool.not_false, hv, and_self, if_true, decide_true, hnat, hdim, Out.pure_eq_ok,
      Bool.false_eq_true, if_false, clamp_one _ (by omega : 1 ≤ dim a.year a.month)]
  | reject =>
    simp only [Out.bind_ok, Bool.not_false, hv, and_self, if_true, decide_true, hnat, hdim, Out.pure_eq_ok,
      Bool.false_eq_true, if_false, reduceCtorEq, h11]

/-- **C18 (year-month arithmetic counts from the first of the month).** For a duration of whole years and months,
`add` is plain-date addition from day 1 of the receiver's month - whatever hidden reference day the receiver carries -
followed by taking the year and month of the result (day 1 again): the hidden part never influences the result. -/
theorem C18_add_from_first_of_month (r : IsoDate) (du : Dur) (ov : Overflow) (bal : Dur)
    (hm : 1 ≤ r.month ∧ r.month ≤ 12) (hr : InRange ⟨r.year, r.month, 1⟩)
    (hb : timeFromNormalized du.timeNs .day = .ok bal)
    (h0 : du.weeks = 0 ∧ F64.ofInt (du.days + bal.days) = 0) :
    yearMonthAdd r du ov = (do
      let added ← plainDateAdd ⟨r.year, r.month, 1⟩ du ov
      yearMonthNew added.year added.month (some 1) ov) := by
  unfold yearMonthAdd
  simp only [hb, Out.bind_ok]
  rw [if_neg (by rcases h0 with ⟨a, b⟩; simp [a, b])]
  unfold partialOfYearMonth
  simp only [Out.pure_eq_ok, Out.bind_ok, fromPartial_first r.year r.month ov hm hr]
  cases hadd : plainDateAdd ⟨r.year, r.month, 1⟩ du ov with
  | err k => rfl
  | panic => rfl
  | ok added =>
    simp only [Out.bind_ok]
    have hmo := plainDateAdd_monthOk hadd
    have hma : 1 ≤ added.month ∧ added.month ≤ 12 := hmo
    have hmc : monthToMonthCode added.month = .ok ⟨added.month.toNat, false⟩ := by
      unfold monthToMonthCode; rw [if_pos (by omega)]
    unfold PartialDate.withFallback
    simp only [hmc, Out.bind_ok, Out.pure_eq_ok, Option.isSome_none, Bool.false_eq_true, or_self, if_false,
      Option.getD_none, if_true]
    exact yearMonthFromPartial_of_date added ov hma

/-- Year-month arithmetic refuses weeks and days (also whole days carried by time units). -/
theorem C18_rejects_weeks_days (r : IsoDate) (du : Dur) (ov : Overflow) (bal : Dur)
    (hb : timeFromNormalized du.timeNs .day = .ok bal)
    (h : du.weeks ≠ 0 ∨ F64.ofInt (du.days + bal.days) ≠ 0) :
    yearMonthAdd r du ov = .err .range := by
  unfold yearMonthAdd
  simp only [hb, Out.bind_ok]
  rw [if_pos h]

/-- **Limits**: for a proper month the constructor accepts exactly −271821-04 … +275760-09. -/
theorem C18_limits (y m : Int) (hm : 1 ≤ m ∧ m ≤ 12) (ov : Overflow) :
    (yearMonthNew y m none ov).isOk =
      decide ((-271821 < y ∨ (y = -271821 ∧ 4 ≤ m)) ∧ (y < 275760 ∨ (y = 275760 ∧ m ≤ 9))) := by
  have hv : Valid y m 1 := ⟨hm.1, hm.2, by omega, by have := dim_bounds y m; omega⟩
  have hc : clamp m 1 12 = m := by unfold clamp; split <;> (try split) <;> omega
  have hd : clamp 1 1 (dim y m) = 1 := by have := dim_bounds y m; unfold clamp; split <;> (try split) <;> omega
  unfold yearMonthNew
  have hreg : IsoDate.regulate y m 1 ov = .ok ⟨y, m, 1⟩ := by
    cases ov
    · rw [regulate_constrain, hc, hd]
    · rw [regulate_reject, if_pos hv]
  show (IsoDate.regulate y m 1 ov >>= fun iso =>
    if yearMonthWithinLimits iso.year iso.month then pure iso else Out.err .range).isOk = _
  rw [hreg]
  simp only [Out.bind_ok]
  have hl : yearMonthWithinLimits y m =
      decide ((-271821 < y ∨ (y = -271821 ∧ 4 ≤ m)) ∧ (y < 275760 ∨ (y = 275760 ∧ m ≤ 9))) := by
    unfold yearMonthWithinLimits
    by_cases h1 : -271821 ≤ y ∧ y ≤ 275760
    · rw [if_neg (by simpa using h1)]
      by_cases h2 : y = -271821 ∧ m < 4
      · rw [if_pos h2]; symm; simp only [decide_eq_false_iff_not]; omega
      · rw [if_neg h2]
        by_cases h3 : y = 275760 ∧ m > 9
        · rw [if_pos h3]; symm; simp only [decide_eq_false_iff_not]; omega
        · rw [if_neg h3]; symm; simp only [decide_eq_true_eq]; omega
    · rw [if_pos h1]; symm; simp only [decide_eq_false_iff_not]; omega
  rw [hl]
  by_cases hh : (-271821 < y ∨ (y = -271821 ∧ 4 ≤ m)) ∧ (y < 275760 ∨ (y = 275760 ∧ m ≤ 9))
  · simp [hh, Out.isOk]
  · simp [hh, Out.isOk]

/-- Month-days accept February 29 and constrain or reject impossible days. -/
theorem C18_month_day_feb29 :
    monthDayNew 2 29 .reject none = .ok ⟨1972, 2, 29⟩ ∧ monthDayNew 2 30 .reject none = .err .range ∧
    monthDayNew 2 31 .constrain none = .ok ⟨1972, 2, 29⟩ ∧ monthDayNew 4 31 .constrain none = .ok ⟨1972, 4, 30⟩ ∧
    monthDayNew 13 1 .reject none = .err .range ∧ monthDayNew 13 40 .constrain none = .ok ⟨1972, 12, 31⟩ := by
  decide

/-! Witnesses for the once-failing routes (kernel-decided). -/
example : yearMonthFromPartial ⟨some 2024, some 3, none, some 15, false, none⟩ .constrain = .ok ⟨2024, 3, 1⟩ := by decide
example : yearMonthAdd ⟨2024, 3, 1⟩ ⟨0, 0, 0, 5, 0, 0, 0, 0, 0, 0⟩ .constrain = .err .range := by decide
example : yearMonthAdd ⟨2024, 3, 1⟩ ⟨1, 11, 0, 0, 0, 0, 0, 0, 0, 0⟩ .constrain = .ok ⟨2026, 2, 1⟩ := by decide

end TemporalModel

#print axioms TemporalModel.C18_canonical_from_fields
#print axioms TemporalModel.C18_canonical_routes
#print axioms TemporalModel.C18_canonical_month_day
#print axioms TemporalModel.C18_rejects_weeks_days
#print axioms TemporalModel.C18_limits
#print axioms TemporalModel.C18_month_day_feb29
#print axioms TemporalModel.C18_add_from_first_of_month
