/-
  Props/C09.lean — property C09: durations are a consistent signed quantity without a reference date.
-/
import TemporalModel.Lemmas.DurationLemmas
import TemporalModel.Props.C07
import TemporalModel.Lemmas.OptionLemmas
import TemporalModel.Lemmas.SplitLemmas
namespace TemporalModel
open Dur

/-- **A duration exists iff** its fields share one sign, |years|,|months|,|weeks| < 2^32 and the exact total of the
    day and time fields (a day counting 24 h) is below 2^53 seconds. -/
theorem C09_valid_iff (d : Dur) : (Dur.new d = .ok d ↔ d.ValidSpec) ∧ (Dur.new d = .ok d ∨ Dur.new d = .err .range) := by
  unfold Dur.new
  constructor
  · rw [← valid_iff]; cases h : d.isValid <;> simp
  · cases h : d.isValid <;> simp

/-- negated / abs / sign behave as on signed numbers. -/
theorem C09_negated (d : Dur) :
    d.negated.negated = d ∧ d.negated.sign = - d.sign ∧ d.negated.totalNs = - d.totalNs ∧
    (d.ValidSpec → d.negated.ValidSpec) := by
  refine ⟨?_, ?_, ?_, ?_⟩
  · simp [negated]
  · unfold sign; rw [negated_fields, signOf_neg]
  · simp only [totalNs, timeNs, negated]; omega
  · rintro ⟨h1, h2, h3, h4, h5⟩
    refine ⟨?_, by simpa [negated] using h2, by simpa [negated] using h3, by simpa [negated] using h4, ?_⟩
    · unfold signUniform at *
      simp only [fields, negated, List.mem_cons, List.mem_nil_iff, or_false, forall_eq_or_imp, forall_eq] at *
      omega
    · have : d.negated.totalNs = - d.totalNs := by simp only [totalNs, timeNs, negated]; omega
      rw [this]; omega

theorem C09_abs (d : Dur) (h : d.signUniform) :
    (∀ v ∈ d.abs.fields, 0 ≤ v) ∧ d.abs.totalNs = (d.totalNs.natAbs : Int) := by
  unfold signUniform at h
  simp only [fields, abs, totalNs, timeNs, List.mem_cons, List.mem_nil_iff, or_false, forall_eq_or_imp, forall_eq] at *
  omega

/-- **compare is the total order of the exact totals** (valid, calendar-free durations). -/
theorem C09_compare_total (a b : Dur) (ha : a.ValidSpec) (hb : b.ValidSpec) (ca : a.calendarFree) (cb : b.calendarFree) :
    a.compareNoRel b = .ok (cmpInt a.totalNs b.totalNs) := by
  obtain ⟨_, _, _, _, ta⟩ := ha
  obtain ⟨_, _, _, _, tb⟩ := hb
  obtain ⟨a1, a2, a3⟩ := ca
  obtain ⟨b1, b2, b3⟩ := cb
  unfold compareNoRel
  by_cases hab : a = b
  · subst hab; simp [cmpInt]
  · simp only [hab, if_false]
    have la : a.defaultLargestUnit.isCalendarUnit = false := by
      unfold defaultLargestUnit; simp only [a1, a2, a3, ne_eq, not_true_eq_false, if_false]
      (repeat (any_goals split)) <;> rfl
    have lb : b.defaultLargestUnit.isCalendarUnit = false := by
      unfold defaultLargestUnit; simp only [b1, b2, b3, ne_eq, not_true_eq_false, if_false]
      (repeat (any_goals split)) <;> rfl
    simp only [la, lb, Bool.false_eq_true, or_self, if_false]
    have ea : a.timeNs + a.days * 86400000000000 = a.totalNs := by unfold totalNs; omega
    have eb : b.timeNs + b.days * 86400000000000 = b.totalNs := by unfold totalNs; omega
    rw [ea, eb]
    unfold normChecked MAX_TIME_DURATION
    rw [if_neg (by omega), if_neg (by omega)]
    simp only [Out.bind_ok, Out.pure_eq_ok, cmpInt]

/-- **round without relativeTo operates on the exact total** (a day counting 24 h): for a time smallest unit the
    rounded total is RoundNumberToIncrement of the exact total; out-of-range results are RangeErrors. -/
theorem C09_round_total_time (n : Int) (o : Resolved) (len : Nat) (hlen : o.smallest.asNanoseconds = some len)
    (ht : o.smallest.isTimeUnit = true) (hinc : 0 < o.increment) (hl : 0 < len) :
    normRound n 0 o =
      (if ((roundSpec n (len * o.increment) o.mode).natAbs : Int) > MAX_TIME_DURATION then .err .range
       else .ok (0, roundSpec n (len * o.increment) o.mode)) := by
  have hq : 0 < (len : Int) * o.increment := Int.mul_pos (by omega) hinc
  unfold normRound
  cases hs : o.smallest <;> simp [hs, TUnit.isTimeUnit] at ht <;>
    simp only [hs] at hlen <;> simp only [hlen, C07_round_eq_spec _ _ _ hq, normChecked] <;>
    split <;> simp_all

/-- For smallest unit day the result is the whole number of days of the rounded exact total. -/
theorem C09_round_total_day (n inc : Int) (mode : RMode) (hinc : 0 < inc) :
    normRound n 0 ⟨.day, .day, inc, mode⟩ = .ok (roundSpec n (inc * 86400000000000) mode / 86400000000000, 0) ∧
    roundSpec n (inc * 86400000000000) mode % 86400000000000 = 0 := by
  have hq : 0 < inc * 86400000000000 := Int.mul_pos hinc (by decide)
  have hdiv : roundSpec n (inc * 86400000000000) mode % 86400000000000 = 0 := by
    rcases C07_result_is_neighbour n (inc * 86400000000000) mode hq with h | h <;>
      rw [C07_round_eq_spec _ _ _ hq] at h <;> rw [h] <;> unfold lowerMultiple
    · rw [Int.mul_assoc, Int.mul_comm 86400000000000, ← Int.mul_assoc]; exact Int.mul_emod_left _ _
    · have : inc * 86400000000000 * (n / (inc * 86400000000000)) + inc * 86400000000000 =
          (inc * (n / (inc * 86400000000000)) + inc) * 86400000000000 := by
        rw [Int.add_mul, Int.mul_assoc, Int.mul_comm 86400000000000, ← Int.mul_assoc]
      rw [this]; exact Int.mul_emod_left _ _
  refine ⟨?_, hdiv⟩
  unfold normRound roundDaysExact
  simp only [Int.zero_mul, Int.zero_add, C07_round_eq_spec _ _ _ hq]
  congr 2
  generalize roundSpec n (inc * 86400000000000) mode = r at *
  by_cases h0 : 0 ≤ r
  · rw [Int.tdiv_eq_ediv_of_nonneg h0]
  · have : r = -(-r) := by omega
    rw [this, Int.neg_tdiv, Int.tdiv_eq_ediv_of_nonneg (by omega)]
    omega

/-- **round(−d) = −round(d) with the mode mirrored** (on the exact totals). -/
theorem C09_round_neg (n q : Int) (mode : RMode) (hq : 0 < q) :
    RoundI128.round (-n) q mode = - RoundI128.round n q mode.negate :=
  C07_neg_symm n q mode hq

/-- Every admissible (unit, increment) pair of a duration rounding divides a day, so a rounded duration still
    counts whole units. -/
theorem C09_increment_divides_day (u : TUnit) (inc : Int) (len : Nat) (h1 : 1 ≤ inc)
    (hlen : u.asNanoseconds = some len) (hu : u.isTimeUnit = true) (ha : incrementAllowed inc u = true) :
    86400000000000 % ((len : Int) * inc) = 0 := by
  have hmax : ∃ m, maxIncrementSpec u = some m ∧ (len : Int) * m ∣ 86400000000000 := by
    cases u <;> simp [TUnit.isTimeUnit] at hu <;> simp [TUnit.asNanoseconds] at hlen <;> subst hlen <;>
      simp [maxIncrementSpec] <;> decide
  obtain ⟨m, hm, hdvd⟩ := hmax
  unfold incrementAllowed at ha
  simp only [hm, Bool.and_eq_true, decide_eq_true_eq] at ha
  obtain ⟨_, hmod⟩ := ha
  have hi : inc ∣ m := Int.dvd_of_emod_eq_zero hmod
  have : (len : Int) * inc ∣ (len : Int) * m := Int.mul_dvd_mul_left _ hi
  exact Int.emod_eq_zero_of_dvd (Int.dvd_trans this hdvd)

/-- **add of calendar-free durations is the exact sum of the totals**, balanced to the larger of the operands'
    largest units (stated for a result largest unit of seconds or above, where every field is exact). -/
theorem C09_add_exact (a b : Dur) (L : TUnit) (k : Nat) (hL : a.defaultLargestUnit.max b.defaultLargestUnit = L)
    (hcal : L.isCalendarUnit = false) (hk : balanceDepth L = some k) (h3 : 3 ≤ k)
    (hdays : ((a.days + b.days).natAbs : Int) ≤ 9007199254740992)
    (hsum : ((a.timeNs + b.timeNs).natAbs : Int) ≤ MAX_TIME_DURATION)
    (htot : ((a.totalNs + b.totalNs).natAbs : Int) ≤ MAX_TIME_DURATION) :
    ∃ c, a.add b = .ok c ∧ c.totalNs = a.totalNs + b.totalNs ∧ c.ValidSpec := by
  unfold Dur.add
  simp only [hL, hcal, Bool.false_eq_true, if_false]
  unfold normChecked
  rw [if_neg (by omega)]
  simp only [Out.bind_ok]
  rw [ofInt_small _ hdays]
  have hsat : F64.toI64Sat (a.days + b.days) = a.days + b.days := by unfold F64.toI64Sat clamp; split <;> (try split) <;> omega
  rw [hsat]
  have e : a.timeNs + b.timeNs + (a.days + b.days) * 86400000000000 = a.totalNs + b.totalNs := by
    unfold totalNs; omega
  rw [e, if_neg (by omega)]
  simp only [Out.bind_ok]
  obtain ⟨r, h1, h2, h3', _⟩ := timeFromNormalized_exact (a.totalNs + b.totalNs) L k hk h3 htot
  exact ⟨r, h1, h2, h3'⟩

theorem C09_add_comm (a b : Dur) : a.add b = b.add a := by
  unfold Dur.add
  rw [TUnit.max_comm a.defaultLargestUnit, Int.add_comm a.timeNs, Int.add_comm a.days]

/-- **total(unit) is the exact total divided by the unit length**: the integer part and the remainder are exact,
    and whenever the unit divides the total (and the quotient is a safe integer) the result is that integer. -/
theorem C09_total_exact (ns : Int) (unit : Nat) (hu : 0 < unit) :
    (ns / (unit : Int)) * unit + ns % (unit : Int) = ns ∧ 0 ≤ ns % (unit : Int) ∧ ns % (unit : Int) < unit := by
  have h1 := Int.emod_nonneg ns (by omega : (unit : Int) ≠ 0)
  have h2 := Int.emod_lt_of_pos ns (by omega : (0 : Int) < unit)
  have h3 := Int.ediv_mul_add_emod ns (unit : Int)
  exact ⟨h3, h1, h2⟩

/-! Witnesses (kernel-decided): the cases that were wrong before the fixes. -/
example : (Dur.new ⟨4294967295, 0, 0, 0, 0, 0, 0, 0, 0, 0⟩).isOk = true := by decide
example : (Dur.new ⟨4294967296, 0, 0, 0, 0, 0, 0, 0, 0, 0⟩).isOk = false := by decide
example : (Dur.new ⟨0, 0, 0, 0, 0, 0, 9007199254740991, 999, 999, 2000⟩).isOk = false := by decide
example : (Dur.new ⟨0, 0, 0, 0, 0, 0, 9007199254740991, 999, 999, 999⟩).isOk = true := by decide

/-- **The "nothing to do" shortcut of `Duration::round` is only a shortcut.** Whenever its condition holds - rounding
to nanoseconds with increment 1, the largest unit the duration already has, no calendar units, and every field below
that unit already balanced (|hours| < 24, |minutes|, |seconds| < 60, sub-second fields < 1000) - the general path
(exact total, rounded, re-balanced) returns the very same duration: the thresholds of the condition are exactly those
under which re-balancing changes nothing (P1DT24H is re-balanced to P2D, which is why `|hours| < 24` is strict).
For fields a double holds exactly. -/
theorem C09_noop_shortcut_sound (d : Dur) (o : Resolved) (hv : d.isValid = true)
    (hs : ∀ f ∈ d.fields, (f.natAbs : Int) ≤ 9007199254740992) (hnoop : d.roundIsNoop o) :
    d.roundNoRelSlow o = .ok d := by
  obtain ⟨⟨hsm, hinc⟩, hL, hcal, hh, hmi, hse, hms, hus, hns⟩ := hnoop
  have hcal' : d.years = 0 ∧ d.months = 0 ∧ d.weeks = 0 := by
    simp only [Bool.not_not, Bool.and_eq_true, decide_eq_true_eq] at hcal
    exact ⟨hcal.1.1, hcal.1.2, hcal.2⟩
  have hh' : (d.hours.natAbs : Int) < 24 := by
    simp only [Bool.not_eq_true', decide_eq_false_iff_not, ge_iff_le, Nat.not_le] at hh; omega
  have hvs := (valid_iff d).mp hv
  have hdays : (d.days.natAbs : Int) ≤ 9007199254740992 := hs d.days (by simp [Dur.fields])
  have hsat : F64.toI64Sat d.days = d.days := by
    unfold F64.toI64Sat clamp; split <;> (try split) <;> omega
  have hbal := timeFromNormalized_balanced d hv hcal' ⟨hh', by omega, by omega, by omega, by omega, by omega⟩ hs
  have hLcal : o.largest.isCalendarUnit = false := by
    rw [hL]; unfold Dur.defaultLargestUnit
    simp only [hcal'.1, hcal'.2.1, hcal'.2.2, ne_eq, not_true_eq_false, if_false]
    repeat (first | rfl | split)
  have hn : normChecked (d.timeNs + F64.toI64Sat d.days * 86400000000000) = .ok d.totalNs := by
    rw [hsat]
    have e : d.timeNs + d.days * 86400000000000 = d.totalNs := by simp only [Dur.totalNs]; omega
    rw [e]
    unfold normChecked
    rw [if_neg]
    unfold Dur.MAX_TIME_DURATION
    have := hvs.2.2.2.2
    omega
  have hn2 : normChecked d.totalNs = .ok d.totalNs := by
    unfold normChecked; rw [if_neg]; unfold Dur.MAX_TIME_DURATION; have := hvs.2.2.2.2; omega
  -- rounding to 1 ns changes nothing
  have hr : RoundI128.round d.totalNs 1 o.mode = d.totalNs := by
    have := C07_multiple_fixed d.totalNs 1 o.mode (by decide)
    simpa using this
  have hnr : normRound d.totalNs 0 o = .ok (0, d.totalNs) := by
    unfold normRound
    rw [hsm]
    simp only [TUnit.asNanoseconds, hinc, Int.mul_one, Out.bind_ok, ne_eq, not_true_eq_false,
      false_and, if_false, Out.pure_eq_ok]
    have h1 : ((1 : Nat) : Int) = 1 := rfl
    rw [h1, hr, hn2]
    rfl
  have c1 : ¬ ((!(decide (d.years = 0) && decide (d.months = 0) && decide (d.weeks = 0))) = true ∨
      o.largest.isCalendarUnit = true) := by
    simp [hcal'.1, hcal'.2.1, hcal'.2.2, hLcal]
  have c2 : ¬ (o.smallest.isCalendarUnit = true) := by rw [hsm]; decide
  have hz : Dur.new ⟨0, 0, 0, 0, 0, 0, 0, 0, 0, 0⟩ = .ok ⟨0, 0, 0, 0, 0, 0, 0, 0, 0, 0⟩ := by decide
  have hsat0 : F64.toI64Sat 0 = 0 := by decide
  unfold Dur.roundNoRelSlow
  dsimp only
  rw [if_neg c1, if_neg c2, hn]
  simp only [Out.bind_ok, hnr, hz, hsat0, Int.zero_mul, Int.add_zero, hn2, hL]
  exact hbal

/-- The shortcut condition is tight: with an hours field of exactly 24 the general path re-balances. -/
example : Dur.roundNoRelSlow ⟨0, 0, 0, 1, 24, 0, 0, 0, 0, 0⟩ ⟨.day, .nanosecond, 1, .halfExpand⟩ =
    .ok ⟨0, 0, 0, 2, 0, 0, 0, 0, 0, 0⟩ := by decide +kernel

end TemporalModel

#print axioms TemporalModel.C09_valid_iff
#print axioms TemporalModel.C09_negated
#print axioms TemporalModel.C09_abs
#print axioms TemporalModel.C09_compare_total
#print axioms TemporalModel.C09_round_total_time
#print axioms TemporalModel.C09_round_total_day
#print axioms TemporalModel.C09_round_neg
#print axioms TemporalModel.C09_increment_divides_day
#print axioms TemporalModel.C09_add_exact
#print axioms TemporalModel.C09_add_comm
#print axioms TemporalModel.C09_total_exact
#print axioms TemporalModel.C09_noop_shortcut_sound
