/-
  Props/C15.lean — property C15: the bundled provider reports what the TZif data say.

  `RawZone` (Model/Tzif.lean) is the reading of a TZif file; the theorems characterise that reading — table lookup,
  the POSIX rule days, the instants of a local date-time, the cache — and the correspondence run compares the
  provider's answers with it for every zone of the zoneinfo directory.
-/
import TemporalModel.Model.Tzif
import TemporalModel.Lemmas.DateLemmas
namespace TemporalModel
open Greg

/-! ### POSIX rule days -/

/-- **C15 (`Mm.w.d`).** For every year, month 1..12, week 1..5 and weekday 0..6 the rule day lies inside the month,
falls on the requested weekday, is the `w`-th such weekday of the month for `w ≤ 4` (or the last one if the month
has only four), and for `w = 5` is the last such weekday of the month. -/
theorem C15_rule_day_mwd (y m w d : Int) (_hm : 1 ≤ m ∧ m ≤ 12) (hw : 1 ≤ w ∧ w ≤ 5) (hd : 0 ≤ d ∧ d ≤ 6) :
    let n := (RuleDay.mwd m w d).epochDay y
    let first := dayNumber y m 1
    let last := dayNumber y m (dim y m)
    first ≤ n ∧ n ≤ last ∧ weekday0 n = d ∧
    (∃ k, 0 ≤ k ∧ k ≤ w - 1 ∧ n = first + (d - weekday0 first) % 7 + 7 * k ∧ (k < w - 1 → last < n + 7)) ∧
    (w = 5 → last < n + 7) := by
  intro n first last
  have hdim := dim_bounds y m
  have hl : last = first + dim y m - 1 := by
    show dayNumber y m (dim y m) = dayNumber y m 1 + dim y m - 1
    unfold dayNumber; omega
  have hn : n = (if first + (d - weekday0 first) % 7 + 7 * (w - 1) > first + dim y m - 1
      then first + (d - weekday0 first) % 7 + 7 * (w - 1) - 7 else first + (d - weekday0 first) % 7 + 7 * (w - 1)) := rfl
  unfold weekday0 at *
  rw [hn, hl]
  split
  · refine ⟨by omega, by omega, by omega, ⟨w - 2, by omega, by omega, by omega, by omega⟩, by omega⟩
  · refine ⟨by omega, by omega, by omega, ⟨w - 1, by omega, by omega, by omega, by omega⟩, by omega⟩

/-- **C15 (`Jn` and `n`).** `Jn` never counts February 29: day 59 is February 28 and day 60 is March 1 in every
year; the zero-based form counts it. -/
theorem C15_rule_day_julian (y : Int) :
    (RuleDay.julian 59).epochDay y = dayNumber y 2 28 ∧ (RuleDay.julian 60).epochDay y = dayNumber y 3 1 ∧
    (RuleDay.julian 1).epochDay y = dayNumber y 1 1 ∧ (RuleDay.julian 365).epochDay y = dayNumber y 12 31 ∧
    (RuleDay.zeroBased 0).epochDay y = dayNumber y 1 1 ∧
    (RuleDay.zeroBased 59).epochDay y = (if isLeap y then dayNumber y 2 29 else dayNumber y 3 1) := by
  unfold RuleDay.epochDay dayNumber monthStart
  by_cases h : isLeap y = true <;> simp [h] <;> omega

/-- The rule's transitions are taken on the right clocks: daylight time starts at `startTime` read on the standard
clock, and ends at `stopTime` read on the daylight clock. -/
theorem C15_rule_transitions (r : DstRule) (std y : Int) :
    r.transitions std y =
      [((r.start.epochDay y * 86400 + r.startTime) - std, r.offset),
       ((r.stop.epochDay y * 86400 + r.stopTime) - r.offset, std)] := rfl

/-! ### The table -/

private theorem fold_skip (z : RawZone) (t : Int) (l : List (Int × Nat)) (acc : Int) (h : ∀ tr ∈ l, t < tr.1) :
    l.foldl (fun acc tr => if tr.1 ≤ t then z.typeOffset tr.2 else acc) acc = acc := by
  induction l generalizing acc with
  | nil => rfl
  | cons tr rest ih =>
    simp only [List.foldl_cons]
    rw [if_neg (by have := h tr (List.mem_cons_self ..); omega)]
    exact ih acc (fun x hx => h x (List.mem_cons_of_mem _ hx))

/-- **C15 (before the first transition).** Before every listed transition the zone is on time type 0. -/
theorem C15_table_before_first (z : RawZone) (t : Int) (h : ∀ tr ∈ z.trans, t < tr.1) :
    z.tableOffset t = z.typeOffset 0 := by
  unfold RawZone.tableOffset; exact fold_skip z t _ _ h

/-- **C15 (between transitions, and at the transition second itself).** If `(T, i)` is the last listed transition
with `T ≤ t` — `T = t` included — the offset is that of time type `i`. -/
theorem C15_table_lookup (z : RawZone) (pre suf : List (Int × Nat)) (T : Int) (i : Nat) (t : Int)
    (hz : z.trans = pre ++ (T, i) :: suf) (hT : T ≤ t) (hsuf : ∀ tr ∈ suf, t < tr.1) :
    z.tableOffset t = z.typeOffset i := by
  unfold RawZone.tableOffset
  rw [hz, List.foldl_append, List.foldl_cons, if_pos hT]
  exact fold_skip z t suf _ hsuf

/-- **C15 (which part of the file answers).** From the last listed transition on, the footer rule answers (or the last
time type when there is no footer); before it, the table; with an empty table, the footer or time type 0. -/
theorem C15_offset_cases (z : RawZone) (t : Int) :
    (z.trans.getLast? = none → z.offsetAt t = (match z.footer with | some p => p.offsetAt t | none => z.typeOffset 0)) ∧
    (∀ lastT lastI, z.trans.getLast? = some (lastT, lastI) →
      (lastT ≤ t → z.offsetAt t = (match z.footer with | some p => p.offsetAt t | none => z.typeOffset lastI)) ∧
      (t < lastT → z.offsetAt t = z.tableOffset t)) := by
  refine ⟨fun h => ?_, fun lastT lastI h => ⟨fun h1 => ?_, fun h1 => ?_⟩⟩
  · unfold RawZone.offsetAt; simp only [h]; cases z.footer <;> rfl
  · unfold RawZone.offsetAt; simp only [h, ge_iff_le, if_pos h1]; cases z.footer <;> rfl
  · unfold RawZone.offsetAt; simp only [h, ge_iff_le]; rw [if_neg (by omega)]

/-- A footer without daylight time prescribes its standard offset at every instant. -/
theorem C15_footer_fixed (std t : Int) : (⟨std, none⟩ : PosixTz).offsetAt t = std := rfl

/-! ### The instants of a local date-time -/

/-- **C15 (local date-time → instants).** Every instant listed for a local reading does read as it (instant plus
the offset in force at that instant), and every instant that reads as it is listed, provided its offset is one the
file mentions. The list is ascending. -/
theorem C15_possible_iff (z : RawZone) (localSec t : Int) :
    (t ∈ z.possible localSec → t + z.offsetAt t = localSec) ∧
    (t + z.offsetAt t = localSec → z.offsetAt t ∈ z.offsets → t ∈ z.possible localSec) ∧
    (z.possible localSec).Pairwise (· ≤ ·) := by
  unfold RawZone.possible
  refine ⟨?_, ?_, ?_⟩
  · simp only [List.mem_mergeSort, List.mem_filterMap]
    rintro ⟨o, _, ho⟩
    split at ho
    · rename_i heq; cases ho; rw [heq]; omega
    · cases ho
  · intro h hm
    simp only [List.mem_mergeSort, List.mem_filterMap]
    refine ⟨z.offsetAt t, hm, ?_⟩
    have e : localSec - z.offsetAt t = t := by omega
    simp only [e, if_true]
  · have := List.pairwise_mergeSort (le := fun (a b : Int) => decide (a ≤ b))
      (by intro a b c; simp only [decide_eq_true_eq]; omega) (by intro a b; simp only [Bool.or_eq_true, decide_eq_true_eq]; omega)
      (z.offsets.filterMap (fun o => let t := localSec - o; if z.offsetAt t = o then some t else none))
    simpa using this

/-! ### The cache -/

/-- Every cached zone is what the file system holds. -/
def ZoneCache.Coherent (read : String → Option RawZone) (c : ZoneCache) : Prop :=
  ∀ id z, c.lookup id = some z → read id = some z

theorem cacheGet_spec (read : String → Option RawZone) (c : ZoneCache) (id : String) (hc : ZoneCache.Coherent read c) :
    (cacheGet read c id).1 = read id ∧ ZoneCache.Coherent read (cacheGet read c id).2 := by
  unfold cacheGet
  cases hl : c.lookup id with
  | some z => exact ⟨(hc id z hl).symm, hc⟩
  | none =>
    cases hr : read id with
    | none => exact ⟨rfl, hc⟩
    | some z =>
      refine ⟨rfl, ?_⟩
      intro id' z' h'
      simp only [List.lookup_cons] at h'
      by_cases e : id' = id
      · subst e; simp at h'; rw [← h']; exact hr
      · have : (id' == id) = false := by simpa using e
        rw [this] at h'; exact hc id' z' h'

/-- **C15 (history independence).** Whatever zones were queried before, in whatever order, each answer of the
caching provider is what a fresh read of that zone gives. -/
theorem C15_cache_history_independent (read : String → Option RawZone) (c : ZoneCache) (hc : ZoneCache.Coherent read c)
    (ids : List String) : cacheRun read c ids = ids.map read := by
  induction ids generalizing c with
  | nil => rfl
  | cons id rest ih =>
    obtain ⟨h1, h2⟩ := cacheGet_spec read c id hc
    simp only [cacheRun, List.map_cons, h1]
    rw [ih _ h2]

/-- A fresh provider starts coherent. -/
theorem C15_empty_cache_coherent (read : String → Option RawZone) : ZoneCache.Coherent read [] := by
  intro id z h; simp at h

/-! Non-vacuity / concrete rule days (kernel-evaluated): the last Sunday of March 2041 is the 31st; the second Sunday
    of March 2038 is the 14th; the last Sunday of October 2038 is the 31st. -/
example : (RuleDay.mwd 3 5 0).epochDay 2041 = dayNumber 2041 3 31 := by decide
example : (RuleDay.mwd 3 2 0).epochDay 2038 = dayNumber 2038 3 14 := by decide
example : (RuleDay.mwd 10 5 0).epochDay 2038 = dayNumber 2038 10 31 := by decide
example : PosixParse.tzChars ['C','E','T','-','1','C','E','S','T',',','M','3','.','5','.','0',',','M','1','0','.','5','.','0','/','3'] =
    some ⟨3600, some ⟨7200, .mwd 3 5 0, 7200, .mwd 10 5 0, 10800⟩⟩ := by decide +kernel
example : PosixParse.tzChars ['<','-','0','2','>','2','<','-','0','1','>',',','M','3','.','5','.','0','/','-','1',',','M','1','0','.','5','.','0','/','0'] =
    some ⟨-7200, some ⟨-3600, .mwd 3 5 0, -3600, .mwd 10 5 0, 0⟩⟩ := by decide +kernel

end TemporalModel

#print axioms TemporalModel.C15_rule_day_mwd
#print axioms TemporalModel.C15_rule_day_julian
#print axioms TemporalModel.C15_rule_transitions
#print axioms TemporalModel.C15_table_before_first
#print axioms TemporalModel.C15_table_lookup
#print axioms TemporalModel.C15_offset_cases
#print axioms TemporalModel.C15_footer_fixed
#print axioms TemporalModel.C15_possible_iff
#print axioms TemporalModel.C15_cache_history_independent
#print axioms TemporalModel.C15_empty_cache_coherent
