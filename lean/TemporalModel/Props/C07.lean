/-
  Props/C07.lean — property C07: rounding picks the neighbouring multiple prescribed by the mode.
  Property theorems only; helper lemmas live in Lemmas/RoundLemmas.lean.
-/
import TemporalModel.Lemmas.RoundLemmas
namespace TemporalModel
open RoundI128

/-- **C07 (main).** The coded integer rounder equals RoundNumberToIncrement for every value, every
positive increment (odd or even) and all nine modes. -/
theorem C07_round_eq_spec (x inc : Int) (mode : RMode) (h : 0 < inc) :
    RoundI128.round x inc mode = roundSpec x inc mode := by
  by_cases hx : 0 ≤ x
  · exact round_eq_spec_nonneg x inc mode h hx
  · exact round_eq_spec_neg x inc mode h (by omega)

/-- The result is one of the two neighbouring multiples of the increment. -/
theorem C07_result_is_neighbour (x inc : Int) (mode : RMode) (h : 0 < inc) :
    RoundI128.round x inc mode = lowerMultiple x inc ∨
    RoundI128.round x inc mode = lowerMultiple x inc + inc := by
  rw [C07_round_eq_spec x inc mode h]
  unfold roundSpec
  cases mode <;> simp only [] <;> (repeat (any_goals split)) <;> omega

/-- The neighbours bracket the exact value: r1 ≤ x < r2. -/
theorem C07_bracket (x inc : Int) (h : 0 < inc) :
    lowerMultiple x inc ≤ x ∧ x < lowerMultiple x inc + inc := by
  have h1 := Int.emod_nonneg x (Int.ne_of_gt h)
  have h2 := Int.emod_lt_of_pos x h
  have h3 := Int.mul_ediv_add_emod x inc
  unfold lowerMultiple; omega

/-- An exact multiple is returned unchanged, whatever the mode. -/
theorem C07_multiple_fixed (k inc : Int) (mode : RMode) (h : 0 < inc) :
    RoundI128.round (inc * k) inc mode = inc * k := by
  rw [C07_round_eq_spec _ inc mode h]
  unfold roundSpec lowerMultiple
  rw [Int.mul_ediv_cancel_left _ (Int.ne_of_gt h)]
  simp

/-- The result is within one increment of the exact value. -/
theorem C07_within_increment (x inc : Int) (mode : RMode) (h : 0 < inc) :
    -inc < RoundI128.round x inc mode - x ∧ RoundI128.round x inc mode - x < inc := by
  have hb := C07_bracket x inc h
  rw [C07_round_eq_spec x inc mode h]
  unfold roundSpec
  cases mode <;> simp only [] <;> (repeat (any_goals split)) <;> omega

/-- Direction modes. -/
theorem C07_floor (x inc : Int) (h : 0 < inc) :
    RoundI128.round x inc .floor = lowerMultiple x inc := by
  rw [C07_round_eq_spec _ _ _ h]; unfold roundSpec; simp only []; split <;> omega
theorem C07_ceil (x inc : Int) (h : 0 < inc) :
    RoundI128.round x inc .ceil = if x = lowerMultiple x inc then x else lowerMultiple x inc + inc := by
  rw [C07_round_eq_spec _ _ _ h]; unfold roundSpec; simp only []

/-- Half modes go to the strictly nearer neighbour. -/
theorem C07_half_nearest (x inc : Int) (mode : RMode) (h : 0 < inc)
    (hm : mode = .halfCeil ∨ mode = .halfFloor ∨ mode = .halfExpand ∨ mode = .halfTrunc ∨ mode = .halfEven) :
    (2 * (x - lowerMultiple x inc) < inc → RoundI128.round x inc mode = lowerMultiple x inc) ∧
    (2 * (x - lowerMultiple x inc) > inc → RoundI128.round x inc mode = lowerMultiple x inc + inc) := by
  rw [C07_round_eq_spec _ _ _ h]
  have hb := C07_bracket x inc h
  unfold roundSpec
  rcases hm with rfl | rfl | rfl | rfl | rfl <;> simp only [] <;>
    constructor <;> intro _ <;> (repeat (any_goals split)) <;> omega

/-- halfEven resolves an exact tie to the even multiple. -/
theorem C07_halfEven_tie (x inc : Int) (h : 0 < inc) (ht : 2 * (x - lowerMultiple x inc) = inc) :
    (RoundI128.round x inc .halfEven / inc) % 2 = 0 := by
  rw [C07_round_eq_spec _ _ _ h]
  have hc : inc * (x / inc) / inc = x / inc := Int.mul_ediv_cancel_left _ (Int.ne_of_gt h)
  have hc2 : (inc * (x / inc) + inc) / inc = x / inc + 1 := by
    have : inc * (x / inc) + inc = inc * (x / inc + 1) := by rw [Int.mul_add, Int.mul_one]
    rw [this, Int.mul_ediv_cancel_left _ (Int.ne_of_gt h)]
  unfold roundSpec lowerMultiple at *
  simp only []
  (repeat (any_goals split)) <;> (try rw [hc2]) <;> (try rw [hc]) <;> omega

/-- Negation symmetry: rounding −x under a mode is minus rounding x under the negated mode
    (this is what `since` relies on). -/
theorem C07_neg_symm (x inc : Int) (mode : RMode) (h : 0 < inc) :
    RoundI128.round (-x) inc mode = - RoundI128.round x inc mode.negate := by
  rw [C07_round_eq_spec _ _ _ h, C07_round_eq_spec _ _ _ h]
  have ⟨hd1, _⟩ := neg_decomp x inc h
  have h1 := Int.emod_nonneg x (Int.ne_of_gt h)
  have h2 := Int.emod_lt_of_pos x h
  have h3 := Int.mul_ediv_add_emod x inc
  have ⟨hs1, hs2⟩ := lower_sign x inc h
  have hc : inc * (x / inc) / inc = x / inc := Int.mul_ediv_cancel_left _ (Int.ne_of_gt h)
  have hc' : inc * (-x / inc) / inc = -x / inc := Int.mul_ediv_cancel_left _ (Int.ne_of_gt h)
  have e5 : inc * (-(x / inc)) = - (inc * (x / inc)) := Int.mul_neg _ _
  have e6 : inc * (-(x / inc) - 1) = - (inc * (x / inc)) - inc := by
    rw [Int.mul_sub, Int.mul_neg, Int.mul_one]
  unfold roundSpec lowerMultiple
  simp only [hc, hc']
  by_cases hr : x % inc = 0
  · simp only [hr, if_true] at hd1
    rw [hd1]
    cases mode <;> simp only [RMode.negate] <;> (repeat (any_goals split)) <;> omega
  · simp only [hr, if_false] at hd1
    rw [hd1]
    cases mode <;> simp only [RMode.negate] <;> (repeat (any_goals split)) <;> omega

/-- `negate` is an involution (so `since` ∘ `since` restores the mode). -/
theorem C07_negate_involutive (m : RMode) : m.negate.negate = m := by cases m <;> rfl

/-! Non-vacuity and regression witnesses (concrete, decided by the kernel). -/
example : RoundI128.round 12 5 .halfExpand = 10 := by decide
example : RoundI128.round 13 5 .halfExpand = 15 := by decide
example : RoundI128.round (-14) 3 .halfExpand = -15 := by decide
example : RoundI128.round 25 10 .halfEven = 20 ∧ RoundI128.round 35 10 .halfEven = 40 := by decide
example : RoundI128.round (-25) 10 .halfCeil = -20 ∧ RoundI128.round (-25) 10 .halfFloor = -30 := by decide
example : (0:Int) < 5 := by decide

end TemporalModel

open TemporalModel in
#print axioms C07_round_eq_spec
#print axioms TemporalModel.C07_result_is_neighbour
#print axioms TemporalModel.C07_bracket
#print axioms TemporalModel.C07_multiple_fixed
#print axioms TemporalModel.C07_within_increment
#print axioms TemporalModel.C07_floor
#print axioms TemporalModel.C07_ceil
#print axioms TemporalModel.C07_half_nearest
#print axioms TemporalModel.C07_halfEven_tie
#print axioms TemporalModel.C07_neg_symm
#print axioms TemporalModel.C07_negate_involutive
