/-
  Props/C01.lean — property C01: ISO dates and the day timeline are a Gregorian bijection.
  `InWin` (|year| ≤ 1.2·10^6) and `InDayWin` (|day| ≤ 4·10^8) strictly contain Temporal's range
  (years −271821 … 275760, days ±(10^8+1)); inside them every machine intermediate is exact.
-/
import TemporalModel.Lemmas.GregorianLemmas2
namespace TemporalModel
open NS Greg

/-! ### The Gregorian day line (specification side, no window: all years) -/

/-- 1970-01-01 is day 0. -/
theorem C01_anchor : dayNumber 1970 1 1 = 0 ∧ epochDaysFromGregorianDate 1970 1 1 = 0 := by decide

/-- Consecutive calendar days are exactly one day apart, for every year (month lengths and leap years by the
    proleptic Gregorian rule) — together with the anchor this makes `dayNumber` *the* timeline position. -/
theorem C01_succ (y m d : Int) (h : Valid y m d) :
    Valid (nextDay y m d).1 (nextDay y m d).2.1 (nextDay y m d).2.2 ∧
    dayNumber (nextDay y m d).1 (nextDay y m d).2.1 (nextDay y m d).2.2 = dayNumber y m d + 1 :=
  ⟨nextDay_valid y m d h, dayNumber_succ y m d h⟩

/-- A year has 365 or 366 days by the leap rule. -/
theorem C01_year_length (y : Int) : yearStart (y + 1) - yearStart y = diy y := by
  have := yearStart_succ y; omega

/-- Calendar order is timeline order, and the day number determines the date. -/
theorem C01_order (y1 m1 d1 y2 m2 d2 : Int) (h1 : Valid y1 m1 d1) (h2 : Valid y2 m2 d2) :
    (ymdLt (y1, m1, d1) (y2, m2, d2) ↔ dayNumber y1 m1 d1 < dayNumber y2 m2 d2) ∧
    (dayNumber y1 m1 d1 = dayNumber y2 m2 d2 → (y1, m1, d1) = (y2, m2, d2)) := by
  refine ⟨⟨dayNumber_lt_of_ymdLt _ _ _ _ _ _ h1 h2, fun hlt => ?_⟩, dayNumber_inj _ _ _ _ _ _ h1 h2⟩
  rcases ymd_trichotomy (y1, m1, d1) (y2, m2, d2) with h | h | h
  · exact h
  · injection h with e1 e2; injection e2 with e2 e3; subst e1 e2 e3; omega
  · have := dayNumber_lt_of_ymdLt _ _ _ _ _ _ h2 h1 h; omega

/-! ### The coded kernels -/

/-- date → days (`epoch_days_from_gregorian_date`) computes the Gregorian day number. -/
theorem C01_toDays (y m d : Int) (hy : InWin y) (hm1 : 1 ≤ m) (hm12 : m ≤ 12) :
    epochDaysFromGregorianDate y m d = dayNumber y m d :=
  toDays_eq_dayNumber y m d hy hm1 hm12

/-- days → date (`ymd_from_epoch_days`) returns an existing calendar day with that day number. -/
theorem C01_fromDays (n : Int) (hn : InDayWin n) :
    ∃ y m d, ymdFromEpochDays n = (y, m, d) ∧ Valid y m d ∧ InWin y ∧ dayNumber y m d = n :=
  fromDays_valid n hn

/-- The two kernels are mutually inverse (bijection between valid dates and days of the window). -/
theorem C01_inverse (y m d : Int) (h : Valid y m d) (hy : InWin y)
    (hn : InDayWin (dayNumber y m d)) :
    ymdFromEpochDays (epochDaysFromGregorianDate y m d) = (y, m, d) := by
  rw [C01_toDays y m d hy h.1 h.2.1]
  obtain ⟨y', m', d', he, hv, _, hd⟩ := fromDays_valid _ hn
  rw [he]
  exact dayNumber_inj _ _ _ _ _ _ hv h hd

theorem C01_inverse' (n : Int) (hn : InDayWin n) :
    epochDaysFromGregorianDate (ymdFromEpochDays n).1 (ymdFromEpochDays n).2.1 (ymdFromEpochDays n).2.2 = n := by
  obtain ⟨y, m, d, he, ht, _⟩ := toDays_fromDays n hn
  rw [he]; exact ht

/-- Temporal's limits are the days ±(10^8 + 1) and lie inside the windows. -/
theorem C01_limits :
    epochDaysFromGregorianDate (-271821) 4 19 = -100000001 ∧
    epochDaysFromGregorianDate 275760 9 14 = 100000001 ∧
    ymdFromEpochDays (-100000001) = (-271821, 4, 19) ∧ ymdFromEpochDays 100000001 = (275760, 9, 14) ∧
    InWin (-271821) ∧ InWin 275760 ∧ InDayWin (-100000001) ∧ InDayWin 100000001 := by
  simp only [InWin, InDayWin]; decide

/-- `IsoDate::balance` moves along the day line: balancing (y, m, d + k) yields the date k days later. -/
theorem C01_balance (y m d k : Int) (h : Valid y m d) (hy : InWin y)
    (hn : InDayWin (dayNumber y m d + k)) :
    ∃ y' m' d', isoDateBalance y m (d + k) = (y', m', d') ∧ Valid y' m' d' ∧
      dayNumber y' m' d' = dayNumber y m d + k := by
  obtain ⟨hm1, hm12, _, _⟩ := h
  have key : isoDateToEpochDays y m (d + k) = dayNumber y m d + k := by
    unfold isoDateToEpochDays
    simp only
    by_cases h12 : m = 12
    · subst h12
      have e1 : (12:Int) / 12 = 1 := by decide
      have e2 : (12:Int) % 12 = 0 := by decide
      rw [e1, e2]
      have : epochDaysFromGregorianDate (y + 1) 0 1 = epochDaysFromGregorianDate y 12 1 := by
        unfold epochDaysFromGregorianDate rataDieFirstEquations
        simp only [SHIFT_CONSTANT, DAYS_IN_A_400Y_CYCLE, EPOCH_COMPUTATIONAL_RATA_DIE]
        have e : y + 1 + 400 * 3670 - (if (0:Int) ≤ 2 then 1 else 0) = y + 400 * 3670 - (if (12:Int) ≤ 2 then 1 else 0) := by
          simp; omega
        simp only [e]
        simp
      rw [this, C01_toDays y 12 1 hy (by omega) (by omega)]
      unfold dayNumber; omega
    · have e1 : m / 12 = 0 := by omega
      have e2 : m % 12 = m := by omega
      rw [e1, e2, Int.add_zero, C01_toDays y m 1 hy hm1 hm12]
      unfold dayNumber; omega
  unfold isoDateBalance
  rw [key]
  simp only
  have e : ((dayNumber y m d + k) * MS_PER_DAY + 0) / MS_PER_DAY = dayNumber y m d + k := by
    unfold MS_PER_DAY; omega
  rw [e]
  obtain ⟨y', m', d', he, hv, _, hd⟩ := fromDays_valid _ hn
  exact ⟨y', m', d', he, hv, hd⟩

/-- The leap-year chain used for month lengths (`iso_days_in_month` → `epoch_time_for_year` →
    `epoch_time_to_epoch_year` → `neri_schneider::year` → `mathematical_days_in_year`) gives the Gregorian
    month length for **every** year and never reaches its assertion. -/
theorem C01_days_in_month (y m : Int) (hm1 : 1 ≤ m) (hm12 : m ≤ 12) :
    isoDaysInMonth y m = .ok (dim y m) := by
  -- the code reduces the year modulo 400 first; the reduced year lies in 2000..2399
  generalize hy' : y % 400 + 2000 = y'
  have hy8 : 2000 ≤ y' ∧ y' ≤ 2399 := by omega
  have hy : InWin y' := by unfold InWin; omega
  have hleap : isLeap y' = isLeap y := by
    unfold isLeap; simp only [decide_eq_decide]; omega
  have hyear : epochTimeToEpochYear (MS_PER_DAY * epochDaysForYear y') = y' := by
    unfold epochTimeToEpochYear
    simp only
    have e : MS_PER_DAY * epochDaysForYear y' / MS_PER_DAY = epochDaysForYear y' := by
      unfold MS_PER_DAY; omega
    rw [e]
    have hys : epochDaysForYear y' = dayNumber y' 1 1 := by
      unfold epochDaysForYear dayNumber yearStart monthStart; simp
    rw [nsYear_eq, ← ymdFromEpochDays_eq, hys]
    have hv : Valid y' 1 1 := ⟨by omega, by omega, by omega, by unfold dim; simp⟩
    have hwin : InDayWin (dayNumber y' 1 1) := by
      unfold InDayWin dayNumber yearStart monthStart; simp; omega
    have := C01_inverse y' 1 1 hv hy hwin
    rw [C01_toDays y' 1 1 hy (by omega) (by omega)] at this
    rw [this]
  have tz : ∀ (a n : Int), 0 < n → (Int.tmod a n = 0 ↔ a % n = 0) := by
    intro a n hn
    constructor
    · intro h; have := Int.dvd_of_tmod_eq_zero h; exact Int.emod_eq_zero_of_dvd this
    · intro h; exact Int.tmod_eq_zero_of_dvd (Int.dvd_of_emod_eq_zero h)
  have hdiy : mathematicalDaysInYear y' = .ok (diy y') := by
    unfold mathematicalDaysInYear diy isLeap
    simp only [tz _ 4 (by decide), tz _ 100 (by decide), tz _ 400 (by decide), decide_eq_true_eq, ne_eq]
    (repeat (any_goals split)) <;> first | rfl | omega | (exfalso; omega)
  unfold isoDaysInMonth
  rw [hy']
  have hm : m = 1 ∨ m = 2 ∨ m = 3 ∨ m = 4 ∨ m = 5 ∨ m = 6 ∨ m = 7 ∨ m = 8 ∨ m = 9 ∨ m = 10 ∨ m = 11 ∨ m = 12 := by omega
  rcases hm with rfl | rfl | rfl | rfl | rfl | rfl | rfl | rfl | rfl | rfl | rfl | rfl <;>
    simp [dim, hyear, hdiy, diy, hleap] <;> split <;> rfl

/-! ### Derived calendar quantities (the oracle the ISO getters are compared with) -/

/-- Day of week advances cyclically along the day line; 1970-01-01 was a Thursday (4). -/
theorem C01_day_of_week (n : Int) :
    dayOfWeek 0 = 4 ∧ 1 ≤ dayOfWeek n ∧ dayOfWeek n ≤ 7 ∧ dayOfWeek (n + 1) = dayOfWeek n % 7 + 1 ∧
    dayOfWeek (n + 7) = dayOfWeek n := by
  unfold dayOfWeek; omega

/-- Day of year restarts at 1 on 1 January, counts up to the year's length, and is the timeline distance
    from the year's first day plus one. -/
theorem C01_day_of_year (y m d : Int) (h : Valid y m d) :
    dayOfYear y 1 1 = 1 ∧ 1 ≤ dayOfYear y m d ∧ dayOfYear y m d ≤ diy y ∧
    dayOfYear y m d = dayNumber y m d - dayNumber y 1 1 + 1 := by
  obtain ⟨hm1, hm12, hd1, hdm⟩ := h
  have h0 := monthStart_nonneg y m
  have h1 := monthStart_lt y m hm1 hm12
  have hj := monthStart_jan y
  unfold dayOfYear dayNumber
  omega

/-- ISO week numbering: the week's Thursday lies in the reported year-of-week and the week number is the
    1-based count of Thursdays of that year up to it. -/
theorem C01_week (y m d : Int) :
    let n := dayNumber y m d
    let th := n - dayOfWeek n + 4
    dayOfWeek th = 4 ∧ n - 3 ≤ th ∧ th ≤ n + 3 ∧
    (weekInfo y m d).1 = (th - yearStart (weekInfo y m d).2) / 7 + 1 := by
  unfold weekInfo dayOfWeek
  simp only
  refine ⟨by omega, by omega, by omega, trivial⟩

end TemporalModel

#print axioms TemporalModel.C01_day_of_week
#print axioms TemporalModel.C01_day_of_year
#print axioms TemporalModel.C01_week
#print axioms TemporalModel.C01_anchor
#print axioms TemporalModel.C01_succ
#print axioms TemporalModel.C01_year_length
#print axioms TemporalModel.C01_order
#print axioms TemporalModel.C01_toDays
#print axioms TemporalModel.C01_fromDays
#print axioms TemporalModel.C01_inverse
#print axioms TemporalModel.C01_inverse'
#print axioms TemporalModel.C01_limits
#print axioms TemporalModel.C01_balance
#print axioms TemporalModel.C01_days_in_month
