/-
  Props/C06.lean — property C06: times are integers mod 24 h, instants integers on the epoch line.
-/
import TemporalModel.Lemmas.TimeLemmas
namespace TemporalModel
open Dur

theorem isTimeDuration_iff (d : Dur) :
    d.isTimeDuration = true ↔ (d.years = 0 ∧ d.months = 0 ∧ d.weeks = 0 ∧ d.days = 0) := by
  unfold isTimeDuration; simp [and_assoc]

theorem isTimeDuration_neg (d : Dur) : d.negated.isTimeDuration = d.isTimeDuration := by
  have h1 := isTimeDuration_iff d
  have h2 := isTimeDuration_iff d.negated
  simp only [negated] at h2
  cases h : d.isTimeDuration <;> cases h' : (negated d).isTimeDuration <;> simp_all [negated] <;> omega

/-- **PlainTime add/subtract = exact addition modulo 24 h**, for every time of day and every time duration
    (any magnitude: the total is an unbounded integer). -/
theorem C06_time_add_mod (t : IsoTime) (d : Dur) (ht : t.isValid = true) (hd : d.isTimeDuration = true) :
    ∃ t', plainTimeAdd t d = .ok t' ∧ t'.isValid = true ∧ t'.toNs = (t.toNs + d.timeNs) % 86400000000000 := by
  have h := timeAddNorm_exact t d.timeNs
  have hr := toNs_range _ h.2
  refine ⟨(timeAddNorm t d.timeNs).2, ?_, h.2, ?_⟩
  · unfold plainTimeAdd; simp [hd]
  · omega

theorem C06_time_subtract (t : IsoTime) (d : Dur) (ht : t.isValid = true) (hd : d.isTimeDuration = true) :
    ∃ t', plainTimeSubtract t d = .ok t' ∧ t'.isValid = true ∧ t'.toNs = (t.toNs - d.timeNs) % 86400000000000 := by
  have hd' : d.negated.isTimeDuration = true := by rw [isTimeDuration_neg]; exact hd
  obtain ⟨t', h1, h2, h3⟩ := C06_time_add_mod t d.negated ht hd'
  refine ⟨t', h1, h2, ?_⟩
  have : d.negated.timeNs = - d.timeNs := by simp only [timeNs, negated]; omega
  rw [h3, this]; congr 1

/-- Times refuse calendar and day units. -/
theorem C06_time_rejects_date_units (t : IsoTime) (d : Dur) (hd : d.isTimeDuration = false) :
    plainTimeAdd t d = .err .range ∧ plainTimeSubtract t d = .err .range := by
  have hd' : d.negated.isTimeDuration = false := by rw [isTimeDuration_neg]; exact hd
  unfold plainTimeSubtract plainTimeAdd; simp [hd, hd']

/-- **Instant add = exact integer addition, range-checked**; date units refused. -/
theorem C06_instant_add (i : Int) (d : Dur) :
    (d.isTimeDuration = true →
      instantAdd i d = (if -8640000000000000000000 ≤ i + d.timeNs ∧ i + d.timeNs ≤ 8640000000000000000000
                        then .ok (i + d.timeNs) else .err .range)) ∧
    (d.isTimeDuration = false → instantAdd i d = .err .range ∧ instantSubtract i d = .err .range) := by
  unfold instantAdd instantSubtract instantTryNew nsMaxInstant
  constructor
  · intro h; simp [h]
  · intro h; simp [h]

theorem C06_instant_subtract (i : Int) (d : Dur) (h : d.isTimeDuration = true) :
    instantSubtract i d = (if -8640000000000000000000 ≤ i - d.timeNs ∧ i - d.timeNs ≤ 8640000000000000000000
                        then .ok (i - d.timeNs) else .err .range) := by
  have : d.negated.timeNs = - d.timeNs := by simp only [timeNs, negated]; omega
  unfold instantSubtract instantTryNew nsMaxInstant
  simp only [h, Bool.not_true, Bool.false_eq_true, if_false, this]
  have e : i + -d.timeNs = i - d.timeNs := by omega
  rw [e]

/-- Epoch milliseconds are the floor of epoch nanoseconds / 10^6, also for negative instants. -/
theorem C06_epoch_ms_floor (ns : Int) :
    instantEpochMs ns * 1000000 ≤ ns ∧ ns < (instantEpochMs ns + 1) * 1000000 := by
  unfold instantEpochMs; omega

theorem C06_from_ms_roundtrip (ms : Int) (h : (ms * 1000000).natAbs ≤ 8640000000000000000000) :
    instantFromEpochMs ms = .ok (ms * 1000000) ∧ instantEpochMs (ms * 1000000) = ms := by
  unfold instantFromEpochMs instantTryNew nsMaxInstant instantEpochMs
  refine ⟨?_, by omega⟩
  rw [if_pos]; omega

/-- **until/since without rounding return the exact difference**, balanced to the largest unit (seconds or
    above: every field is exact; for smaller largest units the top field is the nearest double). -/
theorem C06_time_until_exact (a b : IsoTime) (ha : a.isValid = true) (hb : b.isValid = true) (L : TUnit) (k : Nat)
    (hk : balanceDepth L = some k) (h3 : 3 ≤ k) :
    ∃ r, timeFromNormalized (timeDiffNs a b) L = .ok r ∧ r.totalNs = b.toNs - a.toNs ∧ r.ValidSpec := by
  have ra := toNs_range a ha
  have rb := toNs_range b hb
  have e : timeDiffNs a b = b.toNs - a.toNs := by unfold timeDiffNs IsoTime.toNs; omega
  obtain ⟨r, h1, h2, h3', _⟩ := timeFromNormalized_exact (timeDiffNs a b) L k hk h3
    (by rw [e]; unfold MAX_TIME_DURATION; omega)
  exact ⟨r, h1, by rw [h2, e], h3'⟩

theorem C06_instant_until_exact (a b : Int) (ha : a.natAbs ≤ 8640000000000000000000)
    (hb : b.natAbs ≤ 8640000000000000000000) (L : TUnit) (k : Nat) (hk : balanceDepth L = some k) (h3 : 3 ≤ k) :
    ∃ r, timeFromNormalized (b - a) L = .ok r ∧ r.totalNs = b - a ∧ r.ValidSpec := by
  obtain ⟨r, h1, h2, h3', _⟩ := timeFromNormalized_exact (b - a) L k hk h3 (by unfold MAX_TIME_DURATION; omega)
  exact ⟨r, h1, h2, h3'⟩

/-! Non-vacuity: the once-failing witness `00:00 + 1e19 ns = 17:46:40` (kernel-decided). -/
example : plainTimeAdd ⟨0, 0, 0, 0, 0, 0⟩ ⟨0, 0, 0, 0, 0, 0, 0, 0, 0, 10000000000000000000⟩
    = .ok ⟨17, 46, 40, 0, 0, 0⟩ := by decide
example : instantEpochMs (-1) = -1 := by decide

end TemporalModel

#print axioms TemporalModel.C06_time_add_mod
#print axioms TemporalModel.C06_time_subtract
#print axioms TemporalModel.C06_time_rejects_date_units
#print axioms TemporalModel.C06_instant_add
#print axioms TemporalModel.C06_instant_subtract
#print axioms TemporalModel.C06_epoch_ms_floor
#print axioms TemporalModel.C06_from_ms_roundtrip
#print axioms TemporalModel.C06_time_until_exact
#print axioms TemporalModel.C06_instant_until_exact
