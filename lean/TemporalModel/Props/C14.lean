/-
  Props/C14.lean — property C14: ZonedDateTime arithmetic is wall-clock for dates and exact for times.
  Zones are arbitrary transition tables unless a hypothesis restricts them.
-/
import TemporalModel.Props.C13
import TemporalModel.Props.C06
import TemporalModel.Props.C07
import TemporalModel.Lemmas.RelZonedLemmas
import TemporalModel.Lemmas.ZonedDiffLemmas
namespace TemporalModel
open ZoneSpec

/-- **C14 (add, time units).** A duration without date units is added on the exact timeline: the result is the
instant plus the duration's exact nanoseconds (or a RangeError outside the range), in every zone. -/
theorem C14_add_time_exact (tz : TZ) (ns : Int) (du : Dur) (ov : Overflow)
    (h : (dateDur du.years du.months du.weeks du.days).sign = 0) :
    zdtAdd tz ns du ov =
      (if -8640000000000000000000 ≤ ns + du.timeNs ∧ ns + du.timeNs ≤ 8640000000000000000000
       then .ok (ns + du.timeNs) else .err .range) := by
  unfold zdtAdd addToInstant TZ.epochNs isValidEpochNanos NS_MAX_INSTANT
  rw [if_pos h]
  by_cases c : -8640000000000000000000 ≤ ns + du.timeNs ∧ ns + du.timeNs ≤ 8640000000000000000000
  · simp [c]
  · rw [if_neg c]
    have : ¬ ((decide (-8640000000000000000000 ≤ ns + du.timeNs) && decide (ns + du.timeNs ≤ 8640000000000000000000)) = true) := by
      simpa using c
    rw [if_neg this]

/-- **C14 (add, date units).** With date units the duration's date part is added to the wall-clock date (constrain /
reject as asked), the wall-clock time is kept, the result is re-resolved in the zone with the compatible rule, and
only then the time part is added on the exact timeline. -/
theorem C14_add_wall_then_exact (tz : TZ) (ns : Int) (du : Dur) (ov : Overflow)
    (h : (dateDur du.years du.months du.weeks du.days).sign ≠ 0) :
    zdtAdd tz ns du ov = (do
      let wall ← tz.isoDateTimeFor ns
      let added ← plainDateAdd wall.date (dateDur du.years du.months du.weeks du.days) ov
      if !(isoDtWithinValidLimits added wall.time) then Out.err .range else do
      let resolved ← tz.epochNsFor ⟨added, wall.time⟩ .compatible
      TZ.epochNs (resolved + du.timeNs)) := by
  unfold zdtAdd addToInstant
  rw [if_neg h]

private theorem ite_ok_eq {x r : Dur} (h : (if x.isValid then Out.ok x else .err .range) = .ok r) : r = x := by
  split at h
  · cases h; rfl
  · cases h

theorem timeFromNormalized_days_zero (n : Int) (L : TUnit) (k : Nat) (hk : balanceDepth L = some k) (h6 : k < 6) (r : Dur)
    (h : timeFromNormalized n L = .ok r) : r.days = 0 := by
  unfold timeFromNormalized at h
  rw [hk] at h
  have := ite_ok_eq h
  subst this
  have hs := splitNs_spec ((n.natAbs : Int)) k (by omega) (by omega)
  simp only at hs
  have hz := hs.2.2.2.2.2.2.2.2.2.2.2.2.2.2.2.2.2.1 h6
  simp only [Dur.signedF64, hz]
  rw [ofInt_small 0 (by decide)]
  omega

/-- **C14 (until/since, time largest unit).** With a largest unit of hours, minutes or seconds and no rounding the
result is the exact elapsed time between the two instants — the zone plays no part. -/
theorem C14_until_exact_elapsed (a b : Int) (L : TUnit) (k : Nat) (mode : RMode)
    (ha : a.natAbs ≤ 8640000000000000000000) (hb : b.natAbs ≤ 8640000000000000000000)
    (hL : L = .hour ∨ L = .minute ∨ L = .second) (hk : balanceDepth L = some k) :
    ∃ r, zdtDiffTime false a b ⟨L, .nanosecond, 1, mode⟩ = .ok r ∧ r.totalNs = b - a ∧ r.ValidSpec ∧ r.days = 0 := by
  have h3 : 3 ≤ k ∧ k < 6 := by rcases hL with rfl | rfl | rfl <;> simp [balanceDepth] at hk <;> omega
  obtain ⟨r, h1, h2, hv, hy, hmo, hw, _⟩ :=
    timeFromNormalized_exact (b - a) L k hk h3.1 (by unfold Dur.MAX_TIME_DURATION; omega)
  have hd0 := timeFromNormalized_days_zero (b - a) L k hk h3.2 r h1
  have hnc : normChecked (b - a) = .ok (b - a) := by
    unfold normChecked Dur.MAX_TIME_DURATION; rw [if_neg (by omega)]
  have hround : RoundI128.round (b - a) ((1 : Nat) * (1 : Int)) mode = b - a := by
    have := C07_multiple_fixed (b - a) 1 mode (by decide)
    simpa using this
  have hr : r = ⟨0, 0, 0, 0, r.hours, r.minutes, r.seconds, r.milliseconds, r.microseconds, r.nanoseconds⟩ := by
    cases r; simp only at hy hmo hw hd0; subst hy hmo hw hd0; rfl
  refine ⟨r, ?_, h2, hv, hd0⟩
  unfold zdtDiffTime nsDifference normRound
  simp only [hnc, Out.bind_ok, TUnit.asNanoseconds, hround]
  simp only [ne_eq, not_true_eq_false, false_and, if_false, Out.pure_eq_ok, Out.bind_ok]
  unfold durFromNormalized
  simp only [h1, Out.bind_ok, Dur.zero, hd0, Int.add_zero, Bool.false_eq_true, if_false]
  rw [ofInt_small 0 (by decide)]
  unfold Dur.new
  rw [← hr, if_pos ((valid_iff r).mpr hv)]
  rfl

/-- **C14 (start of day).** When some instant reads local midnight, the start of day is the first such instant
(the list of instants is ascending, C13_possible_sorted). -/
theorem C14_start_of_day_first (z : Zone) (date : IsoDate) (x : Int) (rest : List Int)
    (hr : TZ.validDayRange date = .ok ())
    (hp : z.possible (toUncheckedEpochNanoseconds date IsoTime.midnight) = x :: rest)
    (hv : ∀ t ∈ x :: rest, isValidEpochNanos t = true) :
    (TZ.named z).startOfDay date = .ok x ∧ (∀ t ∈ x :: rest, x ≤ t) ∧
    wall z x = toUncheckedEpochNanoseconds date IsoTime.midnight := by
  refine ⟨?_, ?_, ?_⟩
  · unfold TZ.startOfDay TZ.possibleFor
    simp only [hr, Out.bind_ok, hp]
    have hfold : ∀ l : List Int, (∀ t ∈ l, isValidEpochNanos t = true) →
        l.foldr (fun t acc => do let xs ← acc; let e ← TZ.epochNs t; pure (e :: xs)) (pure []) = Out.ok l := by
      intro l
      induction l with
      | nil => intro _; rfl
      | cons a as ih =>
        intro h
        simp only [List.foldr_cons]
        rw [ih (fun t ht => h t (List.mem_cons_of_mem _ ht))]
        simp [TZ.epochNs, h a (List.mem_cons_self ..)]
    rw [hfold _ hv]
    rfl
  · have hs := C13_possible_sorted z (toUncheckedEpochNanoseconds date IsoTime.midnight)
    rw [hp] at hs
    intro t ht
    cases ht with
    | head => exact Int.le_refl _
    | tail _ h => exact (List.pairwise_cons.mp hs).1 t h
  · exact (C13_possible_iff z _ x).mp (by rw [hp]; exact List.mem_cons_self ..)

private theorem lookup2_single (ob T oa t : Int) :
    ((⟨ob, [(T, oa)]⟩ : Zone).lookup t).2 = if T ≤ t then some T else none := by
  unfold Zone.lookup
  simp only [List.foldl_cons, List.foldl_nil]
  split <;> rfl

/-- **C14 (start of day over a skipped midnight, any gap size).** In a zone with one forward transition at second `T`
whose gap contains local midnight, the start of day is the transition instant itself — the first instant of that local
day (or of the next existing one when the whole day is skipped). -/
theorem C14_start_of_day_gap (ob oa T : Int) (date : IsoDate) (hlt : ob < oa) (hob : -86400 < ob) (hoa : oa < 86400)
    (hr : TZ.validDayRange date = .ok ())
    (h1 : (T + ob) * 1000000000 ≤ toUncheckedEpochNanoseconds date IsoTime.midnight)
    (h2 : toUncheckedEpochNanoseconds date IsoTime.midnight < (T + oa) * 1000000000)
    (hT : isValidEpochNanos (T * 1000000000) = true) :
    (TZ.named ⟨ob, [(T, oa)]⟩).startOfDay date = .ok (T * 1000000000) ∧
    ZoneSpec.startOfDay ⟨ob, [(T, oa)]⟩ (toUncheckedEpochNanoseconds date IsoTime.midnight) = some (T * 1000000000) := by
  have hg := C13_gap_any_size ob oa T _ hlt hob hoa h1 h2
  simp only at hg
  constructor
  · unfold TZ.startOfDay TZ.possibleFor
    simp only [hr, Out.bind_ok, hg.1, List.foldr_nil, Out.pure_eq_ok, List.head?_nil]
    rw [lookup2_single, if_pos (by unfold NS_PER_DAY; omega)]
    simp [TZ.epochNs, hT]
  · unfold ZoneSpec.startOfDay
    rw [hg.1]
    have hw1 : wall ⟨ob, [(T, oa)]⟩ (T * 1000000000 - 1) = T * 1000000000 - 1 + ob * 1000000000 := by
      unfold wall; rw [lookup_single', if_neg (by omega)]
    have hw2 : wall ⟨ob, [(T, oa)]⟩ (T * 1000000000) = T * 1000000000 + oa * 1000000000 := by
      unfold wall; rw [lookup_single', if_pos (by omega)]
    simp only [List.filterMap_cons, List.filterMap_nil, hw1, hw2, List.nil_append]
    rw [if_pos (by omega)]
    rfl
where
  lookup_single' (ob T oa t : Int) : (⟨ob, [(T, oa)]⟩ : Zone).offsetAt t = if T ≤ t then oa else ob := by
    unfold Zone.offsetAt Zone.lookup
    simp only [List.foldl_cons, List.foldl_nil]
    split <;> rfl

/-- **C14 (hours in day).** The reported number is the whole hours of the real elapsed time between the start of
the local day and the start of the next one. -/
theorem C14_hours_in_day (tz : TZ) (ns : Int) (wallDt : IsoDateTime) (t0 t1 : Int)
    (hw : tz.isoDateTimeFor ns = .ok wallDt)
    (h0 : tz.startOfDay wallDt.date = .ok t0)
    (h1 : tz.startOfDay (IsoDate.balance wallDt.date.year wallDt.date.month (wallDt.date.day + 1)) = .ok t1)
    (hd : ((t1 - t0).natAbs : Int) ≤ Dur.MAX_TIME_DURATION) :
    zdtHoursInDay tz ns = .ok (Int.tdiv (t1 - t0) 3600000000000 % 256) := by
  unfold zdtHoursInDay nsDifference normChecked
  simp only [hw, h0, h1, Out.bind_ok]
  rw [if_neg (by omega)]
  rfl

/-! ### Rounding relative to a zoned date-time -/

theorem round_multiple (x q : Int) (mode : RMode) (hq : 0 < q) : RoundI128.round x q mode % q = 0 := by
  rcases C07_result_is_neighbour x q mode hq with h | h <;> rw [h] <;> unfold lowerMultiple
  · exact Int.mul_emod_right q (x / q)
  · rw [Int.add_emod, Int.mul_emod_right, Int.emod_self]; rfl

/-- **C14 (rounding a time unit relative to a zoned date-time — NudgeToZonedTime).** Let `s` be the receiver moved by
the duration's date part and `e` one more day in the duration's direction, both resolved in the zone (so `e - s` is
the real length of that local day: 23, 24, 25 h or whatever the rules make it). Whenever the step succeeds:
 * the time part of the result is a multiple of the rounding step;
 * the days grow by one (in the duration's direction) exactly when the rounded time reaches the end of that local
   day, and then the time part is the rounded *excess over the day's real length*, otherwise it is the rounded time;
 * the instant reported for the result is the bracket end it is measured from plus the time part — what `add` maps the
   receiver to;
 * that instant is less than two rounding steps from the exact destination `s + norm`, and less than one step when the
   day was not overrun or its length is a whole number of steps. -/
theorem C14_zoned_time_rounding (tz : TZ) (sign : Int) (dt : IsoDateTime) (date : Dur) (norm : Int) (o : Resolved)
    (len : Nat) (s e : Int) (r : NudgeRecord)
    (hlen : o.smallest.asNanoseconds = some len) (hl : 0 < len) (hinc : 0 < o.increment)
    (hb : zonedDayBracket tz sign dt date = .ok (s, e))
    (h : nudgeToZonedTime tz sign dt date norm o = .ok r) :
    let q := (len : Int) * o.increment
    let rounded := roundSpec norm q o.mode
    r.norm % q = 0 ∧
    (r.expanded = true ↔ intSign (rounded - (e - s)) ≠ -sign) ∧
    (r.expanded = true → r.norm = roundSpec (rounded - (e - s)) q o.mode ∧
        r.date = dateDur date.years date.months date.weeks (date.days + sign) ∧ r.nudgeEpochNs = e + r.norm) ∧
    (r.expanded = false → r.norm = rounded ∧
        r.date = dateDur date.years date.months date.weeks date.days ∧ r.nudgeEpochNs = s + r.norm) ∧
    (-(2 * q) < r.nudgeEpochNs - (s + norm) ∧ r.nudgeEpochNs - (s + norm) < 2 * q) ∧
    ((r.expanded = false ∨ (e - s) % q = 0) →
        -q < r.nudgeEpochNs - (s + norm) ∧ r.nudgeEpochNs - (s + norm) < q) := by
  have hq : 0 < (len : Int) * o.increment := Int.mul_pos (by omega) hinc
  intro q rounded
  unfold nudgeToZonedTime at h
  simp only [hb, Out.bind_ok, hlen] at h
  obtain ⟨span, h1, h⟩ := Out.bind_eq_ok h
  obtain ⟨rfl, _⟩ := normChecked_eq_ok (by simpa [nsDifference] using h1)
  obtain ⟨rd, h2, h⟩ := Out.bind_eq_ok h
  obtain ⟨rfl, _⟩ := normChecked_eq_ok h2
  obtain ⟨bd, h3, h⟩ := Out.bind_eq_ok h
  obtain ⟨rfl, _⟩ := normChecked_eq_ok h3
  rw [C07_round_eq_spec _ _ _ hq] at h
  have hr : roundSpec norm ((len : Int) * o.increment) o.mode = rounded := rfl
  rw [hr] at h
  have hw1 := C07_within_increment norm q o.mode hq
  rw [C07_round_eq_spec _ _ _ hq] at hw1
  have hm1 : rounded % q = 0 := by
    have := round_multiple norm q o.mode hq; rwa [C07_round_eq_spec _ _ _ hq] at this
  by_cases hc : intSign (rounded - (e - s)) ≠ -sign
  · rw [if_pos hc] at h
    obtain ⟨rd', h4, h⟩ := Out.bind_eq_ok h
    obtain ⟨rfl, _⟩ := normChecked_eq_ok h4
    obtain ⟨ng, h5, h⟩ := Out.bind_eq_ok h
    obtain ⟨rfl, _⟩ := normChecked_eq_ok h5
    obtain ⟨d, h6, h⟩ := Out.bind_eq_ok h
    have hd := durNew_eq_ok h6
    subst hd
    split at h
    · cases h
    · cases h
      have hw2 := C07_within_increment (rounded - (e - s)) q o.mode hq
      have hm2 := round_multiple (rounded - (e - s)) q o.mode hq
      rw [C07_round_eq_spec _ _ _ hq] at hw2 hm2 ⊢
      dsimp only
      refine ⟨hm2, ⟨fun _ => hc, fun _ => rfl⟩, fun _ => ⟨rfl, rfl, by omega⟩, ?_, by omega, ?_⟩
      · intro hh; cases hh
      · intro hh
        rcases hh with hh | hh
        · cases hh
        · -- the day's length is a whole number of steps: the excess is already a multiple, rounding leaves it alone
          have hz : (rounded - (e - s)) % q = 0 := by
            rw [Int.sub_emod, hm1, hh]; rfl
          obtain ⟨k, hk⟩ := Int.dvd_of_emod_eq_zero hz
          have hfix := C07_multiple_fixed k q o.mode hq
          rw [C07_round_eq_spec _ _ _ hq, ← hk] at hfix
          rw [hfix]; omega
  · rw [if_neg hc] at h
    obtain ⟨ng, h5, h⟩ := Out.bind_eq_ok h
    obtain ⟨rfl, _⟩ := normChecked_eq_ok h5
    obtain ⟨d, h6, h⟩ := Out.bind_eq_ok h
    have hd := durNew_eq_ok h6
    subst hd
    split at h
    · cases h
    · cases h
      dsimp only
      refine ⟨hm1, ⟨?_, fun hh => absurd hh hc⟩, ?_, fun _ => ⟨rfl, rfl, by omega⟩, by omega, fun _ => by omega⟩
      · intro hh; cases hh
      · intro hh; cases hh

/-- Non-vacuity: in a zone at UTC, 23 h 59 min after midnight rounded to hours overruns the day — one day, no time. -/
example : (nudgeToZonedTime (.offset 0) 1 ⟨⟨1970, 1, 1⟩, IsoTime.midnight⟩ Dur.zero 86340000000000
    ⟨.day, .hour, 1, .halfExpand⟩).map (fun r => (r.date, r.norm, r.nudgeEpochNs, r.expanded)) =
    .ok (dateDur 0 0 0 1, 0, 86400000000000, true) := by decide +kernel
/-- … and on a 23-hour day (one hour skipped at 02:00 local) 22 h 40 min rounds to the whole day. -/
example : (nudgeToZonedTime (.named ⟨0, [(7200, 3600)]⟩) 1 ⟨⟨1970, 1, 1⟩, IsoTime.midnight⟩ Dur.zero 81600000000000
    ⟨.day, .hour, 1, .halfExpand⟩).map (fun r => (r.date, r.norm, r.nudgeEpochNs, r.expanded)) =
    .ok (dateDur 0 0 0 1, 0, 82800000000000, true) := by decide +kernel

/-- **C14 (until/since with a date largest unit and a time smallest unit, end to end).** Take the unrounded difference
`DifferenceZonedDateTime` returns for two different instants - a date part and a time part - and round its time part
with `NudgeToZonedTime`. Then the local-day bracket starts at the instant the date part leads to (`add` of the date
part alone from the receiver), the time part reaches the other instant exactly from there, and the instant the
ROUNDED duration leads to is less than two rounding steps from the other instant - less than one when the day was not
overrun or its real length is a whole number of steps. -/
theorem C14_until_rounded_reaches_other (tz : TZ) (ns1 ns2 : Int) (L : TUnit) (date : Dur) (td : Int)
    (dt : IsoDateTime) (sign : Int) (o : Resolved) (len : Nat) (r : NudgeRecord) (hne : ns1 ≠ ns2)
    (hd : zdtDiffZoned tz ns1 ns2 L = .ok (date, td)) (hdt : tz.isoDateTimeFor ns1 = .ok dt)
    (hlen : o.smallest.asNanoseconds = some len) (hl : 0 < len) (hinc : 0 < o.increment)
    (h : nudgeToZonedTime tz sign dt date td o = .ok r) :
    ∃ s e, zonedDayBracket tz sign dt date = .ok (s, e) ∧ s + td = ns2 ∧
      (-(2 * ((len : Int) * o.increment)) < r.nudgeEpochNs - ns2 ∧
        r.nudgeEpochNs - ns2 < 2 * ((len : Int) * o.increment)) ∧
      ((r.expanded = false ∨ (e - s) % ((len : Int) * o.increment) = 0) →
        -((len : Int) * o.increment) < r.nudgeEpochNs - ns2 ∧ r.nudgeEpochNs - ns2 < (len : Int) * o.increment) := by
  obtain ⟨mid, ins, hadd, hins, hsum, _, _, _, _⟩ := zdtDiffZoned_bracket tz ns1 ns2 L date td dt hne hd hdt
  have hb0 : ∃ se, zonedDayBracket tz sign dt date = .ok se := by
    unfold nudgeToZonedTime at h
    obtain ⟨se, hse, _⟩ := Out.bind_eq_ok h
    exact ⟨se, hse⟩
  obtain ⟨⟨s, e⟩, hb⟩ := hb0
  have hs : s = ins := by
    have hb' := hb
    unfold zonedDayBracket at hb'
    rw [hadd] at hb'
    simp only [Out.bind_ok, hins] at hb'
    obtain ⟨e', _, hb'⟩ := Out.bind_eq_ok hb'
    cases hb'; rfl
  subst hs
  have hz := C14_zoned_time_rounding tz sign dt date td o len s e r hlen hl hinc hb h
  simp only at hz
  obtain ⟨_, _, _, _, h2, h1⟩ := hz
  refine ⟨s, e, hb, hsum, ?_, ?_⟩
  · rw [← hsum]; exact h2
  · intro hh; rw [← hsum]; exact h1 hh

/-- **C14 (the inverse law, proved).** For two different instants and any largest unit, when `until` without rounding
succeeds with the duration `du`, `add(du)` maps the receiver exactly onto the other instant - provided the date part
is not zero, or the receiver is the instant its own wall-clock reading resolves to under `compatible` (it is not the
later copy of a repeated reading: for that case the specified algorithm measures the time part from the earlier copy,
the recorded finding), and the intermediate date-time is inside the date-time limits (it always is except for the
excluded first midnight). -/
theorem C14_add_until_inverse (tz : TZ) (ns1 ns2 : Int) (L : TUnit) (date : Dur) (td : Int) (dt : IsoDateTime)
    (du : Dur) (hne : ns1 ≠ ns2) (h2 : isValidEpochNanos ns2 = true)
    (hd : zdtDiffZoned tz ns1 ns2 L = .ok (date, td)) (hdt : tz.isoDateTimeFor ns1 = .ok dt)
    (hdu : durFromNormalized date td .hour = .ok du)
    (hc : date.sign ≠ 0 ∨ tz.epochNsFor dt .compatible = .ok ns1)
    (hlim : ∀ mid, plainDateAdd dt.date (dateDur date.years date.months date.weeks date.days) .constrain = .ok mid →
      isoDtWithinValidLimits mid dt.time = true) :
    zdtAdd tz ns1 du .constrain = .ok ns2 := by
  obtain ⟨mid, ins, hadd, hins, hsum, hdate, hdays, htb, hrdt⟩ := zdtDiffZoned_bracket tz ns1 ns2 L date td dt hne hd hdt
  -- the balanced duration: the date part as it is, the time part in hours and below, no days added
  unfold durFromNormalized at hdu
  obtain ⟨t, ht, hdu⟩ := Out.bind_eq_ok hdu
  have hdu := durNew_eq_ok hdu
  have htd0 : t.days = 0 := timeFromNormalized_days_zero td .hour 5 rfl (by omega) t ht
  obtain ⟨t', ht', htot, _, hy0, hm0, hw0, _⟩ := timeFromNormalized_exact td .hour 5 rfl (by omega) htb
  rw [ht] at ht'; cases ht'
  have htime : t.timeNs = td := by
    have : t.totalNs = t.days * 86400000000000 + t.timeNs := rfl
    rw [this, htd0] at htot; omega
  have hof : F64.ofInt (date.days + t.days) = date.days := by
    rw [htd0, Int.add_zero]; exact ofInt_small _ (by omega)
  rw [hof] at hdu
  subst hdu
  have hduT : (⟨date.years, date.months, date.weeks, date.days, t.hours, t.minutes, t.seconds, t.milliseconds,
      t.microseconds, t.nanoseconds⟩ : Dur).timeNs = td := htime
  have hsgn : (dateDur date.years date.months date.weeks date.days).sign = date.sign := by rw [← hdate]
  have hok2 : TZ.epochNs ns2 = .ok ns2 := by unfold TZ.epochNs; rw [if_pos h2]
  unfold zdtAdd
  simp only
  by_cases hz : date.sign = 0
  · -- no date part: exact addition from the receiver, which is the start of the bracket
    rw [hsgn, if_pos hz]
    have hcomp : tz.epochNsFor dt .compatible = .ok ns1 := by
      rcases hc with hc | hc
      · exact absurd hz hc
      · exact hc
    have hall : date.years = 0 ∧ date.months = 0 ∧ date.weeks = 0 ∧ date.days = 0 := by
      unfold Dur.sign at hz
      rcases signOf_cases date.fields with ⟨_, h⟩ | ⟨e, _⟩ | ⟨e, _⟩
      · exact ⟨h _ (by simp [Dur.fields]), h _ (by simp [Dur.fields]), h _ (by simp [Dur.fields]),
          h _ (by simp [Dur.fields])⟩
      · omega
      · omega
    rw [hall.1, hall.2.1, hall.2.2.1, hall.2.2.2] at hadd
    have hself := plainDateAdd_internalDiff dt.date dt.date .day Dur.zero hrdt hrdt (by simp [plainDateInternalDiff])
    have hmid : mid = dt.date := by
      have : (Out.ok mid : Out IsoDate) = .ok dt.date := by rw [← hadd]; exact hself
      cases this; rfl
    subst hmid
    rw [hcomp] at hins
    cases hins
    unfold addToInstant
    rw [hduT, hsum]; exact hok2
  · rw [hsgn, if_neg hz, hdt]
    simp only [Out.bind_ok]
    rw [hadd]
    simp only [Out.bind_ok, hlim mid hadd, Bool.not_true, Bool.false_eq_true, if_false, hins]
    unfold addToInstant
    rw [hduT, hsum]; exact hok2

/-- Non-vacuity of the hypotheses: with one hour skipped at 02:00 local on 1970-01-02, from midnight of 1970-01-01 to
03:00 local on 1970-01-02 are one day and two elapsed hours (not three): `until` reports P1DT2H and `add` maps the
receiver back onto the other instant. -/
example : zdtDiffZoned (.named ⟨0, [(93600, 3600)]⟩) 0 93600000000000 .day = .ok (dateDur 0 0 0 1, 7200000000000) ∧
    zdtAdd (.named ⟨0, [(93600, 3600)]⟩) 0 ⟨0, 0, 0, 1, 2, 0, 0, 0, 0, 0⟩ .constrain = .ok 93600000000000 := by
  decide +kernel

/-- **C14 (rounding a calendar unit or a day relative to a zoned date-time — NudgeToCalendarUnit with a zone).** The
two ends of the bracket are the receiver moved by the truncated and by the next duration on the wall clock, each
resolved in the zone with the compatible rule (so a day is as long as the zone makes it); the bracket is not empty;
the rounded position is the exact rational one of C08 (`nudgeRounded`, theorem C08_calendar_nudge_exact) computed on
those instants; and the result is one of the two ends. -/
theorem C14_zoned_calendar_nudge (tz : TZ) (sign destNs : Int) (dt : IsoDateTime) (date : Dur) (o : Resolved)
    (r : NudgeRecord) (h : nudgeCalendarUnitZ (some tz) sign destNs dt date o = .ok r) :
    ∃ r1 r2 startD endD st en s e,
      nudgeBracket sign dt date o = .ok (r1, r2, startD, endD) ∧
      addDateToDt dt startD = .ok st ∧ addDateToDt dt endD = .ok en ∧
      tz.epochNsFor st .compatible = .ok s ∧ tz.epochNsFor en .compatible = .ok e ∧ e ≠ s ∧
      let rounded := nudgeRounded r1 (o.increment * signMul sign) ((destNs - s) * intSign (e - s)) (e - s).natAbs
        o.increment o.mode
      (rounded = r2 → r.date = endD ∧ r.nudgeEpochNs = e ∧ r.expanded = true) ∧
      (rounded ≠ r2 → r.date = startD ∧ r.nudgeEpochNs = s ∧ r.expanded = false) ∧ r.norm = 0 := by
  unfold nudgeCalendarUnitZ at h
  obtain ⟨⟨r1, r2, startD, endD⟩, hb, h⟩ := Out.bind_eq_ok h
  simp only at h
  obtain ⟨sD, h1, h⟩ := Out.bind_eq_ok h
  obtain ⟨eD, h2, h⟩ := Out.bind_eq_ok h
  rw [durNew_eq_ok h1, durNew_eq_ok h2] at h
  obtain ⟨st, h3, h⟩ := Out.bind_eq_ok h
  obtain ⟨en, h4, h⟩ := Out.bind_eq_ok h
  obtain ⟨s, h5, h⟩ := Out.bind_eq_ok h
  obtain ⟨e, h6, h⟩ := Out.bind_eq_ok h
  have h5' : tz.epochNsFor st .compatible = .ok s := h5
  have h6' : tz.epochNsFor en .compatible = .ok e := h6
  refine ⟨r1, r2, startD, endD, st, en, s, e, hb, h3, h4, h5', h6', ?_⟩
  by_cases hes : e = s
  · rw [if_pos hes] at h; cases h
  · rw [if_neg hes] at h
    refine ⟨hes, ?_⟩
    simp only
    split at h
    · rename_i hr
      cases h
      exact ⟨fun _ => ⟨rfl, rfl, rfl⟩, fun hn => absurd hr hn, rfl⟩
    · rename_i hr
      cases h
      exact ⟨fun hh => absurd hh hr, fun _ => ⟨rfl, rfl, rfl⟩, rfl⟩

/-- **C14 (compare relative to a zoned date-time).** Two different durations, at least one with a date unit, are
ordered as the instants `add` maps the reference to (wall-clock for the date parts, exact for the time parts). -/
theorem C14_compare_zoned_orders_destinations (a b : Dur) (tz : TZ) (ns x y : Int) (hne : a ≠ b)
    (hd : a.defaultLargestUnit.isTimeUnit = false ∨ b.defaultLargestUnit.isTimeUnit = false)
    (hx : zdtAdd tz ns a .constrain = .ok x) (hy : zdtAdd tz ns b .constrain = .ok y) :
    Dur.compareRelZoned a b tz ns = .ok (if x < y then -1 else if x > y then 1 else 0) := by
  unfold Dur.compareRelZoned
  rw [if_neg hne]
  have : (!a.defaultLargestUnit.isTimeUnit) = true ∨ (!b.defaultLargestUnit.isTimeUnit) = true := by
    rcases hd with h | h <;> simp [h]
  simp only [this, if_true, hx, hy, Out.bind_ok]
  rfl

/-- **C14 / C08 (one machinery).** Without a zone the zone-parametrised rounding and totalling steps are literally the
plain-date ones of C08: every C08 theorem applies to them, and a zone changes only how wall-clock readings become
instants (`toNsIn`). -/
theorem C14_relative_without_zone (date : Dur) (norm destNs : Int) (dt : IsoDateTime) (o : Resolved) (u : TUnit) :
    roundRelativeDurationZ none date norm destNs dt o = roundRelativeDuration date norm destNs dt o ∧
    totalRelativeDurationZ none date norm destNs dt u = totalRelativeDuration date norm destNs dt u :=
  ⟨roundRelativeDurationZ_none date norm destNs dt o, totalRelativeDurationZ_none date norm destNs dt u⟩

/-- **C14 (differences across time zones)**: when the other value lives in another time zone, `until` / `since` with a
    date largest unit are a RangeError - whatever the two instants, equal ones included - and with a time largest unit
    they are the exact difference of the instants, the zones playing no part; in one zone the zoned difference. Option
    errors come first in every case. -/
theorem C14_until_across_zones (since : Bool) (tz : TZ) (ns1 ns2 : Int) (raw : RawOptions) (o : Resolved)
    (ho : fromDiffSettings raw since .dateTime .hour .nanosecond = .ok o) :
    (o.largest.isTimeUnit = false → zdtDiffFullZ since tz false ns1 ns2 raw = .err .range) ∧
    (o.largest.isTimeUnit = true → zdtDiffFullZ since tz false ns1 ns2 raw = zdtDiffTime since ns1 ns2 o) ∧
    zdtDiffFullZ since tz true ns1 ns2 raw = zdtDiffFull since tz ns1 ns2 raw := by
  refine ⟨?_, ?_, ?_⟩
  · intro h; unfold zdtDiffFullZ; simp [ho, h]
  · intro h; unfold zdtDiffFullZ; simp [ho, h]
  · unfold zdtDiffFullZ
    by_cases h : o.largest.isTimeUnit = true
    · unfold zdtDiffFull; simp [ho, h]
    · simp [ho, h]

theorem C14_until_across_zones_option_errors (since : Bool) (tz : TZ) (same : Bool) (ns1 ns2 : Int) (raw : RawOptions)
    (k : ErrKind) (ho : fromDiffSettings raw since .dateTime .hour .nanosecond = .err k) :
    zdtDiffFullZ since tz same ns1 ns2 raw = .err k := by
  unfold zdtDiffFullZ; simp [ho]

end TemporalModel

#print axioms TemporalModel.C14_add_time_exact
#print axioms TemporalModel.C14_add_wall_then_exact
#print axioms TemporalModel.C14_until_exact_elapsed
#print axioms TemporalModel.C14_start_of_day_first
#print axioms TemporalModel.C14_start_of_day_gap
#print axioms TemporalModel.C14_hours_in_day
#print axioms TemporalModel.C14_zoned_time_rounding
#print axioms TemporalModel.C14_relative_without_zone
#print axioms TemporalModel.C14_compare_zoned_orders_destinations
#print axioms TemporalModel.C14_until_rounded_reaches_other
#print axioms TemporalModel.C14_add_until_inverse
#print axioms TemporalModel.C14_zoned_calendar_nudge
#print axioms TemporalModel.C14_until_across_zones
#print axioms TemporalModel.C14_until_across_zones_option_errors
