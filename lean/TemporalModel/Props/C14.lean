/-
  Props/C14.lean — property C14: ZonedDateTime arithmetic is wall-clock for dates and exact for times.
  Zones are arbitrary transition tables unless a hypothesis restricts them.
-/
import TemporalModel.Props.C13
import TemporalModel.Props.C06
import TemporalModel.Props.C07
namespace TemporalModel
open ZoneSpec

/-- **C14 (add, time units).** A duration without date units is added on the exact timeline: the result is the
instant plus the duration's exact nanoseconds (or a RangeError outside the range), in every zone. -/
theorem C14_add_time_exact (tz : TZ) (ns : Int) (du : Dur) (ov : Overflow)
    (h : (dateDur du.years du.months du.weeks du.days).sign = 0) :
    zdtAdd tz ns du ov =
      (if -8640000000000000000000 ≤ ns + du.timeNs ∧ ns + du.timeNs ≤ 8640000000000000000000
       then .ok (ns + du.timeNs) else .err .range) := by
  unfold zdtAdd addToInstant TZ.epochNs isValidEpochNanos NS_MAX_INSTANT
  rw [if_pos h]
  by_cases c : -8640000000000000000000 ≤ ns + du.timeNs ∧ ns + du.timeNs ≤ 8640000000000000000000
  · simp [c]
  · rw [if_neg c]
    have : ¬ ((decide (-8640000000000000000000 ≤ ns + du.timeNs) && decide (ns + du.timeNs ≤ 8640000000000000000000)) = true) := by
      simpa using c
    rw [if_neg this]

/-- **C14 (add, date units).** With date units the duration's date part is added to the wall-clock date (constrain /
reject as asked), the wall-clock time is kept, the result is re-resolved in the zone with the compatible rule, and
only then the time part is added on the exact timeline. -/
theorem C14_add_wall_then_exact (tz : TZ) (ns : Int) (du : Dur) (ov : Overflow)
    (h : (dateDur du.years du.months du.weeks du.days).sign ≠ 0) :
    zdtAdd tz ns du ov = (do
      let wall ← tz.isoDateTimeFor ns
      let added ← plainDateAdd wall.date (dateDur du.years du.months du.weeks du.days) ov
      if !(isoDtWithinValidLimits added wall.time) then Out.err .range else do
      let resolved ← tz.epochNsFor ⟨added, wall.time⟩ .compatible
      TZ.epochNs (resolved + du.timeNs)) := by
  unfold zdtAdd addToInstant
  rw [if_neg h]

private theorem ite_ok_eq {x r : Dur} (h : (if x.isValid then Out.ok x else .err .range) = .ok r) : r = x := by
  split at h
  · cases h; rfl
  · cases h

theorem timeFromNormalized_days_zero (n : Int) (L : TUnit) (k : Nat) (hk : balanceDepth L = some k) (h6 : k < 6) (r : Dur)
    (h : timeFromNormalized n L = .ok r) : r.days = 0 := by
  unfold timeFromNormalized at h
  rw [hk] at h
  have := ite_ok_eq h
  subst this
  have hs := splitNs_spec ((n.natAbs : Int)) k (by omega) (by omega)
  simp only at hs
  have hz := hs.2.2.2.2.2.2.2.2.2.2.2.2.2.2.2.2.2.1 h6
  simp only [Dur.signedF64, hz]
  rw [ofInt_small 0 (by decide)]
  omega

/-- **C14 (until/since, time largest unit).** With a largest unit of hours, minutes or seconds and no rounding the
result is the exact elapsed time between the two instants — the zone plays no part. -/
theorem C14_until_exact_elapsed (a b : Int) (L : TUnit) (k : Nat) (mode : RMode)
    (ha : a.natAbs ≤ 8640000000000000000000) (hb : b.natAbs ≤ 8640000000000000000000)
    (hL : L = .hour ∨ L = .minute ∨ L = .second) (hk : balanceDepth L = some k) :
    ∃ r, zdtDiffTime false a b ⟨L, .nanosecond, 1, mode⟩ = .ok r ∧ r.totalNs = b - a ∧ r.ValidSpec ∧ r.days = 0 := by
  have h3 : 3 ≤ k ∧ k < 6 := by rcases hL with rfl | rfl | rfl <;> simp [balanceDepth] at hk <;> omega
  obtain ⟨r, h1, h2, hv, hy, hmo, hw, _⟩ :=
    timeFromNormalized_exact (b - a) L k hk h3.1 (by unfold Dur.MAX_TIME_DURATION; omega)
  have hd0 := timeFromNormalized_days_zero (b - a) L k hk h3.2 r h1
  have hnc : normChecked (b - a) = .ok (b - a) := by
    unfold normChecked Dur.MAX_TIME_DURATION; rw [if_neg (by omega)]
  have hround : RoundI128.round (b - a) ((1 : Nat) * (1 : Int)) mode = b - a := by
    have := C07_multiple_fixed (b - a) 1 mode (by decide)
    simpa using this
  have hr : r = ⟨0, 0, 0, 0, r.hours, r.minutes, r.seconds, r.milliseconds, r.microseconds, r.nanoseconds⟩ := by
    cases r; simp only at hy hmo hw hd0; subst hy hmo hw hd0; rfl
  refine ⟨r, ?_, h2, hv, hd0⟩
  unfold zdtDiffTime nsDifference normRound
  simp only [hnc, Out.bind_ok, TUnit.asNanoseconds, hround]
  simp only [ne_eq, not_true_eq_false, false_and, if_false, Out.pure_eq_ok, Out.bind_ok]
  unfold durFromNormalized
  simp only [h1, Out.bind_ok, Dur.zero, hd0, Int.add_zero, Bool.false_eq_true, if_false]
  rw [ofInt_small 0 (by decide)]
  unfold Dur.new
  rw [← hr, if_pos ((valid_iff r).mpr hv)]
  rfl

/-- **C14 (start of day).** When some instant reads local midnight, the start of day is the first such instant
(the list of instants is ascending, C13_possible_sorted). -/
theorem C14_start_of_day_first (z : Zone) (date : IsoDate) (x : Int) (rest : List Int)
    (hr : TZ.validDayRange date = .ok ())
    (hp : z.possible (toUncheckedEpochNanoseconds date IsoTime.midnight) = x :: rest)
    (hv : ∀ t ∈ x :: rest, isValidEpochNanos t = true) :
    (TZ.named z).startOfDay date = .ok x ∧ (∀ t ∈ x :: rest, x ≤ t) ∧
    wall z x = toUncheckedEpochNanoseconds date IsoTime.midnight := by
  refine ⟨?_, ?_, ?_⟩
  · unfold TZ.startOfDay TZ.possibleFor
    simp only [hr, Out.bind_ok, hp]
    have hfold : ∀ l : List Int, (∀ t ∈ l, isValidEpochNanos t = true) →
        l.foldr (fun t acc => do let xs ← acc; let e ← TZ.epochNs t; pure (e :: xs)) (pure []) = Out.ok l := by
      intro l
      induction l with
      | nil => intro _; rfl
      | cons a as ih =>
        intro h
        simp only [List.foldr_cons]
        rw [ih (fun t ht => h t (List.mem_cons_of_mem _ ht))]
        simp [TZ.epochNs, h a (List.mem_cons_self ..)]
    rw [hfold _ hv]
    rfl
  · have hs := C13_possible_sorted z (toUncheckedEpochNanoseconds date IsoTime.midnight)
    rw [hp] at hs
    intro t ht
    cases ht with
    | head => exact Int.le_refl _
    | tail _ h => exact (List.pairwise_cons.mp hs).1 t h
  · exact (C13_possible_iff z _ x).mp (by rw [hp]; exact List.mem_cons_self ..)

private theorem lookup2_single (ob T oa t : Int) :
    ((⟨ob, [(T, oa)]⟩ : Zone).lookup t).2 = if T ≤ t then some T else none := by
  unfold Zone.lookup
  simp only [List.foldl_cons, List.foldl_nil]
  split <;> rfl

/-- **C14 (start of day over a skipped midnight, any gap size).** In a zone with one forward transition at second `T`
whose gap contains local midnight, the start of day is the transition instant itself — the first instant of that local
day (or of the next existing one when the whole day is skipped). -/
theorem C14_start_of_day_gap (ob oa T : Int) (date : IsoDate) (hlt : ob < oa) (hob : -86400 < ob) (hoa : oa < 86400)
    (hr : TZ.validDayRange date = .ok ())
    (h1 : (T + ob) * 1000000000 ≤ toUncheckedEpochNanoseconds date IsoTime.midnight)
    (h2 : toUncheckedEpochNanoseconds date IsoTime.midnight < (T + oa) * 1000000000)
    (hT : isValidEpochNanos (T * 1000000000) = true) :
    (TZ.named ⟨ob, [(T, oa)]⟩).startOfDay date = .ok (T * 1000000000) ∧
    ZoneSpec.startOfDay ⟨ob, [(T, oa)]⟩ (toUncheckedEpochNanoseconds date IsoTime.midnight) = some (T * 1000000000) := by
  have hg := C13_gap_any_size ob oa T _ hlt hob hoa h1 h2
  simp only at hg
  constructor
  · unfold TZ.startOfDay TZ.possibleFor
    simp only [hr, Out.bind_ok, hg.1, List.foldr_nil, Out.pure_eq_ok, List.head?_nil]
    rw [lookup2_single, if_pos (by unfold NS_PER_DAY; omega)]
    simp [TZ.epochNs, hT]
  · unfold ZoneSpec.startOfDay
    rw [hg.1]
    have hw1 : wall ⟨ob, [(T, oa)]⟩ (T * 1000000000 - 1) = T * 1000000000 - 1 + ob * 1000000000 := by
      unfold wall; rw [lookup_single', if_neg (by omega)]
    have hw2 : wall ⟨ob, [(T, oa)]⟩ (T * 1000000000) = T * 1000000000 + oa * 1000000000 := by
      unfold wall; rw [lookup_single', if_pos (by omega)]
    simp only [List.filterMap_cons, List.filterMap_nil, hw1, hw2, List.nil_append]
    rw [if_pos (by omega)]
    rfl
where
  lookup_single' (ob T oa t : Int) : (⟨ob, [(T, oa)]⟩ : Zone).offsetAt t = if T ≤ t then oa else ob := by
    unfold Zone.offsetAt Zone.lookup
    simp only [List.foldl_cons, List.foldl_nil]
    split <;> rfl

/-- **C14 (hours in day).** The reported number is the whole hours of the real elapsed time between the start of
the local day and the start of the next one. -/
theorem C14_hours_in_day (tz : TZ) (ns : Int) (wallDt : IsoDateTime) (t0 t1 : Int)
    (hw : tz.isoDateTimeFor ns = .ok wallDt)
    (h0 : tz.startOfDay wallDt.date = .ok t0)
    (h1 : tz.startOfDay (IsoDate.balance wallDt.date.year wallDt.date.month (wallDt.date.day + 1)) = .ok t1)
    (hd : ((t1 - t0).natAbs : Int) ≤ Dur.MAX_TIME_DURATION) :
    zdtHoursInDay tz ns = .ok (Int.tdiv (t1 - t0) 3600000000000 % 256) := by
  unfold zdtHoursInDay nsDifference normChecked
  simp only [hw, h0, h1, Out.bind_ok]
  rw [if_neg (by omega)]
  rfl

end TemporalModel

#print axioms TemporalModel.C14_add_time_exact
#print axioms TemporalModel.C14_add_wall_then_exact
#print axioms TemporalModel.C14_until_exact_elapsed
#print axioms TemporalModel.C14_start_of_day_first
#print axioms TemporalModel.C14_start_of_day_gap
#print axioms TemporalModel.C14_hours_in_day
