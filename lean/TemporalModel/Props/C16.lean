/-
  Props/C16.lean — C16: non-ISO calendar fields describe the same day as the ISO date.

  For every modelled calendar (gregory, buddhist, roc, japanese, coptic, ethiopic, ethioaa, indian, islamic-civil,
  islamic-tbla, persian; iso8601 trivially) and EVERY date of Temporal's range:
    * the reported fields are within bounds and two consecutive ISO days are consecutive calendar days
      (the laws of Spec/CalLaws.lean, which the driver also evaluates on what the implementation reports for the
      calendars that are not modelled);
    * rebuilding through the crate's own resolution (era table, month-code validation, `from_partial`) and the
      library's `date_from_codes` from (year, month code, day), from (year, month, day) and from (era, era year, month
      code, day) returns the original ISO date — with one exception that is a property of the code, stated and
      proved as such: `japanese` dates with a non-positive year cannot be rebuilt from the year alone;
    * changing the calendar keeps the ISO date;
    * every era name the crate hands to the library is one that calendar accepts, every era a calendar reports is an
      alias the crate accepts, identifiers are recognised case-insensitively and are canonical.
-/
import TemporalModel.Lemmas.CalFieldLemmas
import TemporalModel.Lemmas.CalRebuild
import TemporalModel.Model.CalGlue
namespace TemporalModel
namespace Cal
open Greg NS

/-! ### The day-count calendars are lawful on Temporal's whole range -/

theorem Lawful.mono {c : ACal} {W W' : Int → Prop} (h : c.Lawful W) (hw : ∀ n, W' n → W n) : c.Lawful W' :=
  ⟨h.months_pos, h.dim_pos, h.year_len, fun n hn => h.yearOf_spec n (hw n hn)⟩

/-- Every day-count calendar behind an identifier is lawful for all days of the window. -/
theorem arith_lawful (cal : CalId) (c : ACal) (h : cal.arith = some c) : c.Lawful InDayWin := by
  cases cal <;> simp [CalId.arith] at h <;> subst h
  · exact Lawful.mono (copticLike_lawful _) (fun _ _ => trivial)
  · exact Lawful.mono (copticLike_lawful _) (fun _ _ => trivial)
  · exact Lawful.mono (copticLike_lawful _) (fun _ _ => trivial)
  · exact indian_lawful
  · exact Lawful.mono (islamicLike_lawful _) (fun _ _ => trivial)
  · exact Lawful.mono (islamicLike_lawful _) (fun _ _ => trivial)
  · exact Lawful.mono persian_lawful (fun _ _ => trivial)

/-- Inside Temporal's range every day-count calendar's year stays far below the crate's year guard. -/
theorem arith_year_bound (cal : CalId) (c : ACal) (h : cal.arith = some c) (n : Int) (hn : InTemporalDays n) :
    -290000 ≤ c.yearOf n ∧ c.yearOf n ≤ 290000 := by
  cases cal <;> simp [CalId.arith] at h <;> subst h
  · exact copticLike_year_bound _ n (by decide) hn
  · exact copticLike_year_bound _ n (by decide) hn
  · exact copticLike_year_bound _ n (by decide) hn
  · exact indian_year_bound n hn
  · exact islamicLike_year_bound _ n (by decide) hn
  · exact islamicLike_year_bound _ n (by decide) hn
  · exact persian_year_bound n hn

theorem inRange_temporalDays (iso : IsoDate) (hr : InRange iso) :
    InTemporalDays (dayNumber iso.year iso.month iso.day) := ⟨hr.2.1, hr.2.2⟩

/-- C16 (day ↔ date, every day-count calendar): converting a day to (year, month, day) gives an existing date whose
    day number is that day, and converting an existing date to its day number and back gives the date. -/
theorem C16_daycount_inverse (cal : CalId) (c : ACal) (h : cal.arith = some c) :
    (∀ n, InDayWin n → c.Valid (c.ofDay n).1 (c.ofDay n).2.1 (c.ofDay n).2.2 ∧
        c.toDay (c.ofDay n).1 (c.ofDay n).2.1 (c.ofDay n).2.2 = n) ∧
    (∀ y m d, c.Valid y m d → InDayWin (c.toDay y m d) → c.ofDay (c.toDay y m d) = (y, m, d)) :=
  ⟨fun n hn => ofDay_spec (arith_lawful cal c h) n hn, fun y m d hv hw => ofDay_toDay (arith_lawful cal c h) y m d hv hw⟩

theorem inRange_inDayWin (iso : IsoDate) (hr : InRange iso) : InDayWin (dayNumber iso.year iso.month iso.day) := by
  obtain ⟨_, h1, h2⟩ := hr
  unfold InDayWin; omega

/-! ### Bounds and consecutive days -/

/-- **C16 (bounds)**: for every modelled calendar and every date in range, day ≤ days-in-month, month ≤
    months-in-year, day-of-year ≤ days-in-year, the month code agrees with the month, era and era year come
    together. -/
theorem C16_fields_bounds (cal : CalId) (iso : IsoDate) (hr : InRange iso) (f : CalFields)
    (hf : fields cal iso = some f) : FieldsOk f := by
  unfold fields at hf
  split at hf
  · cases hf; exact isoFields_ok cal _ _ _ hr.1
  · split at hf
    · rename_i c hc
      cases hf
      exact arithFields_ok cal (arith_lawful cal c hc) _ (inRange_inDayWin iso hr)
    · cases hf

/-- The ISO day after `iso`. -/
def nextIso (iso : IsoDate) : IsoDate :=
  ⟨(nextDay iso.year iso.month iso.day).1, (nextDay iso.year iso.month iso.day).2.1,
   (nextDay iso.year iso.month iso.day).2.2⟩

theorem arith_not_japanese (cal : CalId) (c : ACal) (h : cal.arith = some c) : cal ≠ .japanese := by
  intro e; subst e; simp [CalId.arith] at h

/-- **C16 (consecutive days)**: for every modelled calendar, the fields of the next ISO day are those of the next
    calendar day: the day advances by one inside the month, or the month by one from the last day of a month, or
    the year by one from the last day of the last month; day-of-year follows; the era year follows the year or a new
    era starts at 1. -/
theorem C16_consecutive_days (cal : CalId) (iso : IsoDate) (hr : InRange iso) (hr' : InRange (nextIso iso))
    (a b : CalFields) (ha : fields cal iso = some a) (hb : fields cal (nextIso iso) = some b) :
    Consecutive a b := by
  unfold fields at ha hb
  split at ha
  · rename_i hiso
    rw [if_pos hiso] at hb
    cases ha; cases hb
    exact isoFields_consecutive cal _ _ _ hr.1
  · rename_i hiso
    rw [if_neg hiso] at hb
    split at ha
    · rename_i c hc
      rw [hc] at hb
      cases ha; cases hb
      have hd : dayNumber (nextIso iso).year (nextIso iso).month (nextIso iso).day =
          dayNumber iso.year iso.month iso.day + 1 := dayNumber_succ _ _ _ hr.1
      simp only [hd]
      have hw' := inRange_inDayWin _ hr'
      rw [hd] at hw'
      exact arithFields_consecutive cal (arith_not_japanese cal c hc) (arith_lawful cal c hc) _
        (inRange_inDayWin iso hr) hw'
    · cases ha

/-! ### Rebuilding a date from its reported fields -/

/-- the record { year, monthCode, day } of the reported fields -/
def byCode (f : CalFields) : CalPartial := ⟨none, none, some f.year, none, some f.monthCode, some f.day⟩
/-- the record { year, month, day } -/
def byMonth (f : CalFields) : CalPartial := ⟨none, none, some f.year, some f.month, none, some f.day⟩

/-- What the crate's month-code resolution needs of the reported fields: a plain (non-leap) code whose number is the
    month, valid for the calendar. -/
theorem fields_code_shape (cal : CalId) (iso : IsoDate) (hr : InRange iso) (f : CalFields)
    (hf : fields cal iso = some f) :
    validateCode cal f.monthCode = .ok () ∧ monthToMonthCode f.month = .ok f.monthCode := by
  by_cases hiso : cal.isoBased = true
  · rw [fields_iso cal hiso] at hf
    cases hf
    obtain ⟨h1, h2, _, _⟩ := hr.1
    have a : 1 ≤ iso.month.toNat ∧ iso.month.toNat ≤ 12 := by omega
    have b : 1 ≤ iso.month ∧ iso.month ≤ 13 := by omega
    constructor
    · simp [validateCode, isoFields, a]
    · simp [monthToMonthCode, isoFields, b]
  · cases hc : cal.arith with
    | none => simp [fields, hiso, hc] at hf
    | some c =>
      rw [fields_arith cal c hc] at hf
      cases hf
      have hl := arith_lawful cal c hc
      obtain ⟨⟨v1, v2, _, _⟩, _⟩ := ofDay_spec hl _ (inRange_inDayWin iso hr)
      simp only [arithFields]
      generalize (c.ofDay (dayNumber iso.year iso.month iso.day)) = ymd at v1 v2 ⊢
      cases cal <;> simp [CalId.arith] at hc <;> subst hc <;>
        simp only [copticLike, coptic, ethiopic, indian, islamicCivil, islamicTbla, islamicLike, persian] at v2 <;>
        (have b : 1 ≤ (ymd.2.1 : Int) ∧ (ymd.2.1 : Int) ≤ 13 := by omega) <;>
        (constructor
         · by_cases h12 : ymd.2.1 ≤ 12
           · simp [validateCode, v1, h12]
           · first
               | omega
               | (have : ymd.2.1 = 13 := by omega
                  simp [validateCode, this])
         · simp [monthToMonthCode, b])

/-- The crate's half of `from_partial`, given what the two resolutions and the library return. -/
theorem rebuild_of (cal : CalId) (p : CalPartial) (era : Option String) (y : Int) (code : MonthCode) (d : Int)
    (iso : IsoDate) (ov : Option Overflow)
    (hy : (p.year.isSome || (p.era.isSome && p.eraYear.isSome)) = true)
    (hm : (p.month.isSome || p.monthCode.isSome) = true) (hd : p.day = some d)
    (hres : resolveEraYear cal p = .ok (era, y)) (hcode : resolveCode cal p = .ok code)
    (hyb : -300000 ≤ y ∧ y ≤ 300000)
    (hlib : fromCodes cal era y code d = some iso) (hr : InRange iso) :
    plainDateFromPartialCal cal p ov = .ok iso := by
  have hg : ¬ (y < -MAX_CALENDAR_YEAR ∨ y > MAX_CALENDAR_YEAR) := by unfold MAX_CALENDAR_YEAR; omega
  unfold plainDateFromPartialCal dateFromPartialCal resolveFields
  simp only [hy, hm, hd, hres, hcode, resolveDay, Out.bind_ok, Out.pure_eq_ok, Bool.not_true, Bool.false_or,
    Option.isNone_some, Bool.false_eq_true, if_false, hg, hlib]
  exact newWithOverflow_of_inRange iso _ hr

/-- The year a modelled calendar reports for a date in range passes the crate's year guard. -/
theorem fields_year_bound (cal : CalId) (iso : IsoDate) (hr : InRange iso) (f : CalFields)
    (hf : fields cal iso = some f) : -300000 ≤ f.year ∧ f.year ≤ 300000 := by
  have hy := inRange_year iso hr
  by_cases hiso : cal.isoBased = true
  · rw [fields_iso cal hiso] at hf
    cases hf
    simp only [isoFields, yearInfo_year]
    split <;> omega
  · cases hc : cal.arith with
    | none => simp [fields, hiso, hc] at hf
    | some c =>
      rw [fields_arith cal c hc] at hf
      cases hf
      have hb := arith_year_bound cal c hc _ (inRange_temporalDays iso hr)
      have e : (c.ofDay (dayNumber iso.year iso.month iso.day)).1 = c.yearOf (dayNumber iso.year iso.month iso.day) := rfl
      simp only [arithFields, yearInfo_year, e]
      split <;> omega

/-- The library's year route for every modelled non-ISO calendar. -/
theorem lib_year (cal : CalId) (hne : cal ≠ .iso8601) (iso : IsoDate) (hr : InRange iso)
    (hj : cal = .japanese → 1 ≤ iso.year) (f : CalFields) (hf : fields cal iso = some f) :
    fromCodes cal none f.year f.monthCode f.day = some iso := by
  by_cases hiso : cal.isoBased = true
  · rw [fields_iso cal hiso] at hf
    cases hf
    by_cases hjp : cal = .japanese
    · subst hjp; exact lib_year_japanese _ _ _ hr.1 (hj rfl)
    · have : cal = .gregory ∨ cal = .buddhist ∨ cal = .roc := by
        cases cal <;> simp [CalId.isoBased] at hiso hne hjp ⊢
      exact lib_year_iso cal this _ _ _ hr.1
  · cases hc : cal.arith with
    | none => simp [fields, hiso, hc] at hf
    | some c =>
      rw [fields_arith cal c hc] at hf
      cases hf
      exact lib_year_arith cal c hc (arith_lawful cal c hc) iso hr

/-- **C16 (rebuild from year, month code, day)**: for every modelled non-ISO calendar and every date in range,
    `from_partial` with the reported year, month code and day returns the original ISO date, in either overflow
    mode.  (`japanese`: for years ≥ 1 — see `C16_japanese_nonpositive_year`.) -/
theorem C16_rebuild_from_year_code (cal : CalId) (hne : cal ≠ .iso8601) (iso : IsoDate) (hr : InRange iso)
    (hj : cal = .japanese → 1 ≤ iso.year) (f : CalFields) (hf : fields cal iso = some f) (ov : Option Overflow) :
    plainDateFromPartialCal cal (byCode f) ov = .ok iso := by
  obtain ⟨hv, _⟩ := fields_code_shape cal iso hr f hf
  refine rebuild_of cal (byCode f) none f.year f.monthCode f.day iso ov rfl rfl rfl rfl ?_
    (fields_year_bound cal iso hr f hf) (lib_year cal hne iso hr hj f hf) hr
  simp [resolveCode, byCode, hv]

/-- **C16 (rebuild from year, month, day)**: the same through the ordinal month. -/
theorem C16_rebuild_from_year_month (cal : CalId) (hne : cal ≠ .iso8601) (iso : IsoDate) (hr : InRange iso)
    (hj : cal = .japanese → 1 ≤ iso.year) (f : CalFields) (hf : fields cal iso = some f) (ov : Option Overflow) :
    plainDateFromPartialCal cal (byMonth f) ov = .ok iso := by
  obtain ⟨hv, hm⟩ := fields_code_shape cal iso hr f hf
  refine rebuild_of cal (byMonth f) none f.year f.monthCode f.day iso ov rfl rfl rfl rfl ?_
    (fields_year_bound cal iso hr f hf) (lib_year cal hne iso hr hj f hf) hr
  simp [resolveCode, byMonth, hm, hv]

/-- The era route for every modelled non-ISO calendar. -/
theorem era_route (cal : CalId) (hne : cal ≠ .iso8601) (iso : IsoDate) (hr : InRange iso) (f : CalFields)
    (hf : fields cal iso = some f) : EraRouteOk cal f iso := by
  by_cases hiso : cal.isoBased = true
  · rw [fields_iso cal hiso] at hf
    cases hf
    have hy := inRange_year iso hr
    cases cal <;> simp [CalId.isoBased] at hiso hne
    · exact era_route_buddhist _ _ _ hr.1 hy
    · exact era_route_gregory _ _ _ hr.1 hy
    · exact era_route_japanese _ _ _ hr.1 hy
    · exact era_route_roc _ _ _ hr.1 hy
  · cases hc : cal.arith with
    | none => simp [fields, hiso, hc] at hf
    | some c =>
      rw [fields_arith cal c hc] at hf
      cases hf
      exact era_route_arith cal c hc (arith_lawful cal c hc) iso hr
        (arith_year_bound cal c hc _ (inRange_temporalDays iso hr))

theorem fields_has_era (cal : CalId) (hne : cal ≠ .iso8601) (iso : IsoDate) (f : CalFields)
    (hf : fields cal iso = some f) : f.era.isSome = true ∧ f.eraYear.isSome = true := by
  unfold fields at hf
  split at hf
  · cases hf
    rename_i hiso
    cases cal <;> simp [CalId.isoBased] at hiso hne <;> simp [isoFields, yearInfo] <;> split <;> simp
  · split at hf
    · rename_i c hc
      cases hf
      cases cal <;> simp [CalId.arith] at hc <;> simp [arithFields, yearInfo] <;> split <;> simp
    · cases hf

/-- **C16 (rebuild from era, era year, month code, day)**: for every modelled non-ISO calendar and EVERY date in
    range, the reported era is in the crate's table, the reported era year inside that era's bounds, the table's
    code is one the library accepts with the same meaning, and `from_partial` returns the original ISO date. -/
theorem C16_rebuild_from_era (cal : CalId) (hne : cal ≠ .iso8601) (iso : IsoDate) (hr : InRange iso)
    (f : CalFields) (hf : fields cal iso = some f) (ov : Option Overflow) :
    plainDateFromPartialCal cal (byEra f) ov = .ok iso := by
  obtain ⟨hv, _⟩ := fields_code_shape cal iso hr f hf
  obtain ⟨e, ey, hres, hyb, hlib⟩ := era_route cal hne iso hr f hf
  obtain ⟨he, hy⟩ := fields_has_era cal hne iso f hf
  refine rebuild_of cal (byEra f) e ey f.monthCode f.day iso ov ?_ rfl rfl hres ?_ hyb hlib hr
  · simp [byEra, he, hy]
  · simp [resolveCode, byEra, hv]

/-- **C16 (updating a date with its own fields is the identity)**: `with` merges the given fields into the receiver's
    own — its calendar year, its month code, its day — and rebuilds; given any subset of the receiver's own year,
    month code and day (here: the day, the least `with` accepts) the merged record is the receiver's (year, month
    code, day) and the result is the receiver, for every modelled non-ISO calendar and every date in range
    (`japanese`: from 1 CE, see C16_japanese_nonpositive_year). -/
theorem C16_with_own_fields_identity (cal : CalId) (hne : cal ≠ .iso8601) (iso : IsoDate) (hr : InRange iso)
    (hj : cal = .japanese → 1 ≤ iso.year) (f : CalFields) (hf : fields cal iso = some f) (ov : Option Overflow) :
    mergeFieldsCal f ⟨none, none, none, none, none, some f.day⟩ = byCode f ∧
    mergeFieldsCal f ⟨none, none, some f.year, none, some f.monthCode, none⟩ =
      ⟨none, none, some f.year, some (f.monthCode.num : Int), some f.monthCode, some f.day⟩ ∧
    plainDateWithCal cal f ⟨none, none, none, none, none, some f.day⟩ ov = .ok iso := by
  have h := C16_rebuild_from_year_code cal hne iso hr hj f hf ov
  refine ⟨rfl, rfl, ?_⟩
  unfold plainDateWithCal
  have : mergeFieldsCal f ⟨none, none, none, none, none, some f.day⟩ = byCode f := rfl
  rw [this]
  unfold plainDateFromPartialCal at h
  simpa [byCode, CalPartial.isEmpty] using h

/-- … and when given back its own era and era year, or its own year, or its own month code: for EVERY date in range
    (the era route has no exception). -/
theorem C16_with_own_era_identity (cal : CalId) (hne : cal ≠ .iso8601) (iso : IsoDate) (hr : InRange iso)
    (f : CalFields) (hf : fields cal iso = some f) (ov : Option Overflow) :
    plainDateWithCal cal f ⟨f.era, f.eraYear, none, none, none, none⟩ ov = .ok iso := by
  have h := C16_rebuild_from_era cal hne iso hr f hf ov
  obtain ⟨he, hy⟩ := fields_has_era cal hne iso f hf
  have hm : mergeFieldsCal f ⟨f.era, f.eraYear, none, none, none, none⟩ = byEra f := by
    unfold mergeFieldsCal byEra
    simp [he]
  have hne' : (⟨f.era, f.eraYear, none, none, none, none⟩ : CalPartial).isEmpty = false := by
    cases hfe : f.era with
    | none => simp [hfe] at he
    | some e => simp [CalPartial.isEmpty]
  unfold plainDateWithCal
  rw [hne', hm]
  unfold plainDateFromPartialCal at h
  simpa [byEra, he, hy] using h

theorem C16_with_own_year_or_code_identity (cal : CalId) (hne : cal ≠ .iso8601) (iso : IsoDate) (hr : InRange iso)
    (hj : cal = .japanese → 1 ≤ iso.year) (f : CalFields) (hf : fields cal iso = some f) (ov : Option Overflow) :
    plainDateWithCal cal f ⟨none, none, some f.year, none, none, none⟩ ov = .ok iso ∧
    plainDateWithCal cal f ⟨none, none, none, none, some f.monthCode, none⟩ ov = .ok iso := by
  have h := C16_rebuild_from_year_code cal hne iso hr hj f hf ov
  obtain ⟨hv, _⟩ := fields_code_shape cal iso hr f hf
  unfold plainDateFromPartialCal at h
  have hbase : dateFromPartialCal cal (byCode f) (ov.getD .constrain) = .ok iso := by
    simpa [byCode] using h
  constructor
  · unfold plainDateWithCal
    have : mergeFieldsCal f ⟨none, none, some f.year, none, none, none⟩ = byCode f := rfl
    rw [this]
    simpa [CalPartial.isEmpty] using hbase
  · unfold plainDateWithCal
    -- the merged record also carries the month number of the code, which agrees with it
    have hmerge : mergeFieldsCal f ⟨none, none, none, none, some f.monthCode, none⟩ =
        ⟨none, none, some f.year, some (f.monthCode.num : Int), some f.monthCode, some f.day⟩ := rfl
    rw [hmerge]
    have hres : resolveFields cal ⟨none, none, some f.year, some (f.monthCode.num : Int), some f.monthCode, some f.day⟩ =
        resolveFields cal (byCode f) := by
      unfold resolveFields resolveCode resolveEraYear byCode
      simp [hv]
    have : dateFromPartialCal cal ⟨none, none, some f.year, some (f.monthCode.num : Int), some f.monthCode, some f.day⟩
        (ov.getD .constrain) = dateFromPartialCal cal (byCode f) (ov.getD .constrain) := by
      unfold dateFromPartialCal; rw [hres]
    simpa [CalPartial.isEmpty, this] using hbase

/-- A year-month built by `yearMonthNew` from a valid ISO date under constrain is that date (or a RangeError). -/
theorem yearMonthNew_valid (y m d : Int) (hv : Greg.Valid y m d) (r : IsoDate)
    (h : yearMonthNew y m (some d) .constrain = .ok r) : r = ⟨y, m, d⟩ := by
  unfold yearMonthNew at h
  rw [Option.getD_some, regulate_constrain] at h
  obtain ⟨h1, h2, h3, h4⟩ := hv
  have e1 : clamp m 1 12 = m := by unfold clamp; split <;> (try split) <;> omega
  rw [e1] at h
  have e2 : clamp d 1 (Greg.dim y m) = d := by unfold clamp; split <;> (try split) <;> omega
  rw [e2] at h
  simp only [Out.bind_ok] at h
  split at h
  · cases h; rfl
  · cases h

/-- **C16 (the year-month of a date is the first day of its calendar month)**: whenever `to_plain_year_month`
    succeeds for a date of a modelled non-ISO calendar, the ISO reference date it stores is a day whose calendar
    fields are the date's year, the date's month code, and day 1 (`japanese`: from 1 CE). -/
theorem C16_year_month_first_of_month (cal : CalId) (hne : cal ≠ .iso8601) (iso : IsoDate) (hr : InRange iso)
    (hj : cal = .japanese → 1 ≤ iso.year) (f : CalFields) (hf : fields cal iso = some f) (r : IsoDate)
    (h : dateToYearMonthCal cal f = .ok r) :
    ∃ g, fields cal r = some g ∧ g.year = f.year ∧ g.monthCode = f.monthCode ∧ g.day = 1 := by
  obtain ⟨hv, _⟩ := fields_code_shape cal iso hr f hf
  have hyb := fields_year_bound cal iso hr f hf
  have hg : ¬ (f.year < -MAX_CALENDAR_YEAR ∨ f.year > MAX_CALENDAR_YEAR) := by unfold MAX_CALENDAR_YEAR; omega
  have hm : mergeFieldsCal f ⟨none, none, none, none, none, none⟩ = byCode f := rfl
  unfold dateToYearMonthCal yearMonthFromPartialCal at h
  rw [hm] at h
  have hres : resolveEraYear cal (byCode f) = .ok (none, f.year) := rfl
  have hcode : resolveCode cal (byCode f) = .ok f.monthCode := by simp [resolveCode, byCode, hv]
  simp only [hres, hcode, Out.bind_ok, hg, if_false] at h
  by_cases hiso : cal.isoBased = true
  · rw [fields_iso cal hiso] at hf
    cases hf
    obtain ⟨v1, v2, v3, v4⟩ := hr.1
    have hv1 : Greg.Valid iso.year iso.month 1 := ⟨v1, v2, by omega, by omega⟩
    have hy : (isoFields cal iso.year iso.month iso.day).year = (isoFields cal iso.year iso.month 1).year := by
      simp [isoFields, yearInfo_year]
    have hc : (isoFields cal iso.year iso.month iso.day).monthCode = (isoFields cal iso.year iso.month 1).monthCode := rfl
    have hlib : fromCodes cal none (isoFields cal iso.year iso.month iso.day).year
        (isoFields cal iso.year iso.month iso.day).monthCode 1 = some ⟨iso.year, iso.month, 1⟩ := by
      rw [hy, hc]
      by_cases hjp : cal = .japanese
      · subst hjp; exact lib_year_japanese _ _ _ hv1 (hj rfl)
      · have : cal = .gregory ∨ cal = .buddhist ∨ cal = .roc := by
          cases cal <;> simp [CalId.isoBased] at hiso hne hjp ⊢
        exact lib_year_iso cal this _ _ _ hv1
    rw [hlib] at h
    have := yearMonthNew_valid _ _ _ hv1 r h
    subst this
    exact ⟨isoFields cal iso.year iso.month 1, fields_iso cal hiso _, hy.symm, rfl, rfl⟩
  · cases hc : cal.arith with
    | none => simp [fields, hiso, hc] at hf
    | some c =>
      rw [fields_arith cal c hc] at hf
      cases hf
      have hl := arith_lawful cal c hc
      have hW := inRange_inDayWin iso hr
      obtain ⟨⟨w1, w2, w3, w4⟩, ht⟩ := ofDay_spec hl _ hW
      -- name the calendar date of the day
      generalize hymd : c.ofDay (Greg.dayNumber iso.year iso.month iso.day) = ymd at w1 w2 w3 w4 ht
      obtain ⟨y, m, d⟩ := ymd
      simp only at w1 w2 w3 w4 ht
      have hfy : (arithFields cal c (Greg.dayNumber iso.year iso.month iso.day)).year = y := by
        have hb : cal ≠ .buddhist := by intro hb; subst hb; simp [CalId.arith] at hc
        simp [arithFields, hymd, yearInfo_year, hb]
      have hfc : (arithFields cal c (Greg.dayNumber iso.year iso.month iso.day)).monthCode = ⟨m, false⟩ := by
        simp [arithFields, hymd]
      rw [hfy, hfc] at h
      have hlib : fromCodes cal none y ⟨m, false⟩ 1 = arithFromCodes c y ⟨m, false⟩ 1 := by
        cases cal <;> simp [CalId.arith] at hc <;> subst hc <;> simp [fromCodes]
      rw [hlib] at h
      unfold arithFromCodes at h
      simp only [Bool.false_eq_true, false_or] at h
      rw [if_neg (by omega), if_neg (by omega)] at h
      -- the first day of the month, as an epoch day
      have hn1 : c.toDay y m 1 = Greg.dayNumber iso.year iso.month iso.day - (d - 1) := by
        rw [← ht]; unfold ACal.toDay; omega
      cases hio : isoOfDay (c.toDay y m 1) with
      | none => rw [hio] at h; cases h
      | some r0 =>
        rw [hio] at h
        simp only at h
        unfold isoOfDay at hio
        split at hio
        · rename_i hwin
          cases hio
          have hW1 : InDayWin (c.toDay y m 1) := by unfold InDayWin; unfold MAX_EPOCH_DAYS at hwin; omega
          obtain ⟨y', m', d', he, hv', _, hd'⟩ := C01_fromDays _ hW1
          rw [he] at h
          simp only at h
          have := yearMonthNew_valid _ _ _ hv' r h
          subst this
          refine ⟨arithFields cal c (c.toDay y m 1), ?_, ?_, ?_, ?_⟩
          · rw [fields_arith cal c hc]; simp only [hd']
          all_goals
            have hod := ofDay_toDay hl y m 1 ⟨w1, w2, by omega, by omega⟩ hW1
            have hb : cal ≠ .buddhist := by intro hb; subst hb; simp [CalId.arith] at hc
            simp [arithFields, hod, yearInfo_year, hb, hymd]
        · cases hio

/-- Non-vacuity: 2020-03-15 is 25 Esfand 1398 AP; its year-month is stored as 2020-02-20, 1 Esfand 1398. -/
example : (fields .persian ⟨2020, 3, 15⟩).map (fun f => (f.year, f.monthCode, f.day, dateToYearMonthCal .persian f)) =
    some (1398, ⟨12, false⟩, 25, .ok ⟨2020, 2, 20⟩) := by decide +kernel

/-- The exception, as a fact about the code: a `japanese` date of year 0 reports year 0, and the library refuses a
    non-positive year given without an era, so the year route fails (the era route works, by the theorem above). -/
theorem C16_japanese_nonpositive_year :
    fields .japanese ⟨0, 1, 1⟩ = some (isoFields .japanese 0 1 1) ∧
    plainDateFromPartialCal .japanese (byCode (isoFields .japanese 0 1 1)) (some .reject) = .err .range := by
  decide +kernel

/-- The crate's year guard: a year or era year beyond ±300000 is a RangeError before the library is asked. -/
theorem C16_year_guard (cal : CalId) (p : CalPartial) (ov : Overflow) (e : Option String) (y : Int) (c : MonthCode)
    (d : Int) (hres : resolveFields cal p = .ok (e, y, c, d)) (hy : y < -300000 ∨ y > 300000) :
    dateFromPartialCal cal p ov = .err .range := by
  unfold dateFromPartialCal
  have hg : (y < -MAX_CALENDAR_YEAR ∨ y > MAX_CALENDAR_YEAR) := by unfold MAX_CALENDAR_YEAR; omega
  simp only [hres, Out.bind_ok, hg, if_true]

/-- **C16 (changing the calendar keeps the ISO date)**: `with_calendar` rebuilds the value from its ISO fields, which
    for a date in range is the same ISO date; its calendar fields are then a function of that date alone. -/
theorem C16_with_calendar_keeps_iso (iso : IsoDate) (hr : InRange iso) :
    plainDateTryNew iso.year iso.month iso.day = .ok iso :=
  newWithOverflow_of_inRange iso .reject hr

/-! ### Era table -/

/-- **C16 (era names)**: every era name in the crate's table is a code the library accepts for that calendar
    (a name it does not know makes every date of that era unbuildable). -/
theorem C16_era_names_accepted : ∀ r ∈ eraTable, ∀ c ∈ r.cals, r.info.name ∈ libraryAccepts c := by
  decide +kernel

/-- **C16 (reported eras are aliases)**: every era code a calendar reports is accepted back by the crate. -/
theorem C16_reported_eras_accepted : ∀ c ∈ CalId.all, ∀ e ∈ reportedEras c, (eraInfo c e).isSome = true := by
  decide +kernel

/-- **C16 (aliases are unambiguous)**: within one calendar no alias is claimed by two rows of the table, so the order
    of the rows does not matter and every alias of a row names that row's era. -/
theorem C16_alias_unambiguous :
    ∀ r1 ∈ eraTable, ∀ r2 ∈ eraTable, ∀ c ∈ r1.cals, c ∈ r2.cals → ∀ a ∈ r1.aliases, a ∈ r2.aliases →
      r1.info = r2.info := by
  decide +kernel

/-- Every alias of a row resolves to that row's era. -/
theorem C16_alias_resolves : ∀ r ∈ eraTable, ∀ c ∈ r.cals, ∀ a ∈ r.aliases, eraInfo c a = some r.info := by
  decide +kernel

/-! ### Identifiers -/

theorem lowerChar_idem_upper : ∀ k : Fin 26,
    lowerChar (lowerChar (Char.ofNat (65 + k.val))) = lowerChar (Char.ofNat (65 + k.val)) := by
  decide

theorem lowerChar_idem (c : Char) : lowerChar (lowerChar c) = lowerChar c := by
  by_cases h : 'A' ≤ c ∧ c ≤ 'Z'
  · have h1 : 65 ≤ c.toNat := h.1
    have h2 : c.toNat ≤ 90 := h.2
    have := lowerChar_idem_upper ⟨c.toNat - 65, by omega⟩
    have e : 65 + (c.toNat - 65) = c.toNat := by omega
    simp only [e, Char.ofNat_toNat] at this
    exact this
  · unfold lowerChar
    rw [if_neg h, if_neg h]

/-- **C16 (case-insensitive)**: an identifier and any re-casing of it (same lower-case form) are recognised alike. -/
theorem C16_identifier_case_insensitive (s t : List Char) (h : asciiLower s = asciiLower t) :
    calFromId s = calFromId t := by
  unfold calFromId; rw [h]

theorem C16_identifier_lower_idem (s : List Char) : calFromId (asciiLower s) = calFromId s := by
  apply C16_identifier_case_insensitive
  unfold asciiLower
  rw [List.map_map]
  apply List.map_congr_left
  intro c _
  exact lowerChar_idem c

/-- **C16 (canonical identifier)**: every calendar's canonical identifier is recognised as that calendar, so the
    identifier a recognised calendar reports parses back to the same calendar. -/
theorem C16_identifier_canonical : ∀ c ∈ CalId.all, calFromId c.name.toList = .ok c := by
  decide +kernel

theorem C16_identifier_roundtrip (s : List Char) (c : CalId) (h : calFromId s = .ok c) :
    calFromId c.name.toList = .ok c := by
  have : c ∈ CalId.all := by cases c <;> decide
  exact C16_identifier_canonical c this

/-! ### Non-vacuity: concrete dates meet the hypotheses and the statements say something about them -/

example : InRange ⟨2024, 3, 15⟩ ∧ InRange (nextIso ⟨2024, 3, 15⟩) := by
  unfold InRange; decide +kernel
example : (fields .coptic ⟨2024, 3, 15⟩).map CalFields.render = some "coptic 1740 1740 7 M07 6 186 30 365 13 0" := by
  decide +kernel
example : (fields .japanese ⟨2019, 5, 1⟩).map (·.era) = some (some "reiwa") ∧
    (fields .japanese ⟨2019, 4, 30⟩).map (·.eraYear) = some (some 31) := by decide +kernel
example : (fields .indian ⟨2024, 3, 21⟩).map (fun f => (f.year, f.month, f.day)) = some (1946, 1, 1) := by decide +kernel
example : (fields .islamicCivil ⟨622, 7, 19⟩).map (fun f => (f.year, f.month, f.day)) = some (1, 1, 1) := by decide +kernel
example : (fields .ethioaa ⟨2024, 9, 10⟩).map (fun f => (f.eraYear, f.year, f.month, f.day)) =
    some (some 7516, 2016, 13, 5) := by decide +kernel
example : plainDateFromPartialCal .ethioaa ⟨none, none, some 2016, some 13, none, some 5⟩ (some .reject) =
    .ok ⟨2024, 9, 10⟩ := by decide +kernel
example : plainDateFromPartialCal .gregory ⟨some "bce", some 44, none, some 3, none, some 15⟩ none =
    .ok ⟨-43, 3, 15⟩ := by decide +kernel
example : plainDateFromPartialCal .japanese ⟨some "taisho", some 1, none, none, some ⟨7, false⟩, some 30⟩ none =
    .ok ⟨1912, 7, 30⟩ := by decide +kernel
example : plainDateFromPartialCal .japanese ⟨some "taisho", some 1, none, none, some ⟨7, false⟩, some 29⟩ none =
    .err .range := by decide +kernel
example : (fields .persian ⟨2024, 3, 20⟩).map (fun f => (f.year, f.month, f.day, f.inLeapYear)) =
    some (1403, 1, 1, true) := by decide +kernel
example : plainDateFromPartialCal .roc ⟨some "roc", some 2147483647, none, none, some ⟨2, false⟩, some 28⟩ none =
    .err .range := by decide +kernel
example : calFromId "IsLaMiC-CiViL".toList = .ok .islamicCivil ∧ calFromId "islamicc".toList = .ok .islamicCivil ∧
    calFromId "julian".toList = .err .range := by decide +kernel

end Cal
end TemporalModel

#print axioms TemporalModel.Cal.C16_daycount_inverse
#print axioms TemporalModel.Cal.C16_fields_bounds
#print axioms TemporalModel.Cal.C16_consecutive_days
#print axioms TemporalModel.Cal.C16_rebuild_from_year_code
#print axioms TemporalModel.Cal.C16_rebuild_from_year_month
#print axioms TemporalModel.Cal.C16_rebuild_from_era
#print axioms TemporalModel.Cal.C16_japanese_nonpositive_year
#print axioms TemporalModel.Cal.C16_year_guard
#print axioms TemporalModel.Cal.C16_with_calendar_keeps_iso
#print axioms TemporalModel.Cal.C16_era_names_accepted
#print axioms TemporalModel.Cal.C16_reported_eras_accepted
#print axioms TemporalModel.Cal.C16_alias_unambiguous
#print axioms TemporalModel.Cal.C16_alias_resolves
#print axioms TemporalModel.Cal.C16_identifier_case_insensitive
#print axioms TemporalModel.Cal.C16_identifier_lower_idem
#print axioms TemporalModel.Cal.C16_identifier_canonical
#print axioms TemporalModel.Cal.C16_identifier_roundtrip
#print axioms TemporalModel.Cal.C16_with_own_fields_identity
#print axioms TemporalModel.Cal.C16_year_month_first_of_month
#print axioms TemporalModel.Cal.C16_with_own_era_identity
#print axioms TemporalModel.Cal.C16_with_own_year_or_code_identity
