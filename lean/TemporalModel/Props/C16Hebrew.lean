/-
  Props/C16Hebrew.lean — property C16 for the Hebrew calendar (the molad arithmetic and keviyah tables of the
  calendrical library, Model/Hebrew.lean).

  Proved for EVERY day and EVERY year (no range restriction), by the calendar's rules (`hebrewSpec`: the week count
  moves on exactly when the keviyah postpones the new year):
    * the keviyah tables agree with the molad arithmetic: each new year comes exactly the keviyah's year length after
      the one before (`C16_hebrew_year_lengths`), year lengths are 353..355 / 383..385 and equal the sum of the months;
    * day ↔ (year, month, day) are mutually inverse (`C16_hebrew_daycount_inverse`); the reported fields satisfy the
      bounds and consecutive days are consecutive calendar days (`C16_hebrew_rules_*`);
    * month code ↔ ordinal month is a bijection in leap and common years (`C16_hebrew_month_codes`).
  Proved for the code AS WRITTEN wherever no molad falls exactly on Saturday 18 h 0 p in the estimated year or its
  neighbours (`Good n`): the coded conversion is the calendar's (`C16_hebrew_coded_is_calendar`), hence bounds,
  consecutive days and the rebuild from (era, year, month code, day) (`…_partial`).
  What is missing from the `_partial` theorems is FALSE of the code: `C16_hebrew_gate_defect` proves that in Hebrew
  year 75795 (molad exactly at Saturday 18 h 0 p) the coded new year is a week early, that 75794-M12-29 is followed by
  75795-M01-8, that a day is reported as day 0 of a month and that a build with debug assertions panics — the known finding C16-hebrew-molad-at-gate.
-/
import TemporalModel.Lemmas.HebrewLemmas
import TemporalModel.Lemmas.HebrewYears
import TemporalModel.Props.C16
import TemporalModel.Model.HebrewGlue
namespace TemporalModel
open Cal Cal.Heb

/-- **C16 (hebrew: the keviyah tables agree with the molad arithmetic)**, every year. -/
theorem C16_hebrew_year_lengths (y : Int) :
    newYearSpec (y + 1) = newYearSpec y + yearLength y ∧ hebrewSpec.diy y = yearLength y ∧
    (yearLength y = 353 ∨ yearLength y = 354 ∨ yearLength y = 355 ∨
     yearLength y = 383 ∨ yearLength y = 384 ∨ yearLength y = 385) ∧
    (isLeap y = true ↔ 383 ≤ yearLength y) := by
  refine ⟨newYearSpec_succ y, hebrewSpec_diy y, ?_, ?_⟩
  · unfold yearLength; rcases corr_range y with h | h | h <;> rw [h] <;> split <;> omega
  · unfold yearLength; rcases corr_range y with h | h | h <;> rw [h] <;> split <;> simp_all <;> omega

/-- **C16 (hebrew: day ↔ date are mutually inverse)**, every day and every date of the calendar. -/
theorem C16_hebrew_daycount_inverse :
    (∀ n : Int, hebrewSpec.Valid (hebrewSpec.ofDay n).1 (hebrewSpec.ofDay n).2.1 (hebrewSpec.ofDay n).2.2 ∧
      hebrewSpec.toDay (hebrewSpec.ofDay n).1 (hebrewSpec.ofDay n).2.1 (hebrewSpec.ofDay n).2.2 = n) ∧
    (∀ (y : Int) (m : Nat) (d : Int), hebrewSpec.Valid y m d → hebrewSpec.ofDay (hebrewSpec.toDay y m d) = (y, m, d)) :=
  ⟨fun n => ofDay_spec hebrewSpec_lawful n trivial,
   fun y m d hv => ofDay_toDay hebrewSpec_lawful y m d hv trivial⟩

/-- **C16 (hebrew: bounds and consecutive days by the calendar's rules)**, every day. -/
theorem C16_hebrew_rules_bounds (n : Int) : FieldsOk (hebrewFieldsSpec n) := hebrewFieldsSpec_ok n

theorem C16_hebrew_rules_consecutive (n : Int) : Consecutive (hebrewFieldsSpec n) (hebrewFieldsSpec (n + 1)) :=
  hebrewFieldsSpec_consecutive n

/-- **C16 (hebrew: month codes)**: the code reported for an ordinal month names that month again, in leap years
    (M05L is the sixth month, M06 the seventh) and in common years. -/
theorem C16_hebrew_month_codes (y : Int) (m : Nat) (h1 : 1 ≤ m) (h2 : m ≤ hebrewSpec.months y) :
    ordOf y (codeOf y m) = some m := ordOf_codeOf y m h1 h2

/-- **C16 (hebrew: the code is the calendar)** away from a molad at Saturday 18 h 0 p; and exactly there the coded
    new year is a week early. -/
theorem C16_hebrew_coded_is_calendar :
    (∀ n : Int, Good n → hebrewFields n = hebrewFieldsSpec n) ∧
    (∀ y : Int, inWeek y ≠ 174960 → newYear y = newYearSpec y) ∧
    (∀ y : Int, inWeek y = 174960 → newYear y = newYearSpec y - 7) :=
  ⟨hebrewFields_eq_spec, newYear_eq_spec, newYear_exceptional⟩

/-- **C16 / C03 (hebrew: no debug assertion fires)** away from a molad at Saturday 18 h 0 p: the year the library
    settles on contains the day, in builds with and without debug assertions. -/
theorem C16_hebrew_no_assertion_partial (n : Int) (g : Good n) : hebrewFieldsChecked n = .ok (hebrewFields n) :=
  hebrewFieldsChecked_ok n g

theorem C16_hebrew_fields_bounds_partial (n : Int) (g : Good n) : FieldsOk (hebrewFields n) := by
  rw [hebrewFields_eq_spec n g]; exact hebrewFieldsSpec_ok n

theorem C16_hebrew_consecutive_days_partial (n : Int) (g : Good n) (g' : Good (n + 1)) :
    Consecutive (hebrewFields n) (hebrewFields (n + 1)) := by
  rw [hebrewFields_eq_spec n g, hebrewFields_eq_spec (n + 1) g']; exact hebrewFieldsSpec_consecutive n

/-- **C16 (hebrew: rebuild)**: the library's `date_from_codes` on the reported (era, year, month code, day), or on
    (year, month code, day) alone, is the day the fields were read from. -/
theorem C16_hebrew_rebuild_partial (n : Int) (g : Good n) :
    hebrewFromCodes (hebrewFields n).era (hebrewFields n).year (hebrewFields n).monthCode (hebrewFields n).day = some n ∧
    hebrewFromCodes none (hebrewFields n).year (hebrewFields n).monthCode (hebrewFields n).day = some n := by
  rw [hebrewFields_eq_spec n g]
  obtain ⟨⟨h1, h2, h3, h4⟩, ht⟩ := ofDay_spec hebrewSpec_lawful n trivial
  have hny := newYear_yearOf n g
  have e1 : (hebrewSpec.ofDay n).1 = yearOfWith newYearSpec n := rfl
  rw [← e1] at hny
  have hc := ordOf_codeOf _ _ h1 h2
  rw [hebrewSpec_dim] at h4
  unfold hebrewFromCodes hebrewFieldsSpec hebrewFieldsOf
  simp only [hc]
  have hnd : ¬ ((hebrewSpec.ofDay n).2.2 ≤ 0 ∨
      (hebrewSpec.ofDay n).2.2 > monthLen (hebrewSpec.ofDay n).1 (hebrewSpec.ofDay n).2.1) := by omega
  rw [if_neg hnd, hny, daysPreceding_eq _ _ h1 h2]
  unfold ACal.toDay at ht
  constructor
  · rw [if_neg (by simp)]; exact congrArg some ht
  · rw [if_neg (by simp)]; exact congrArg some ht

/-- **The excluded case is real** (known finding C16-hebrew-molad-at-gate): the molad of Hebrew year 75795 falls
    exactly on Saturday 18 h 0 p; the coded new year is a week early; ISO 72035-07-29 (75794-M12-29) is followed by
    75795-M01-8; ISO 72036-07-16 is reported as day 0 of a month; for ISO 72036-07-15 a debug build panics. -/
theorem C16_hebrew_gate_defect :
    inWeek 75795 = 174960 ∧ newYear 75795 = newYearSpec 75795 - 7 ∧
    ((hebrewFields 25590925).year, (hebrewFields 25590925).monthCode, (hebrewFields 25590925).day) = (75794, ⟨12, false⟩, 29) ∧
    ((hebrewFields 25590926).year, (hebrewFields 25590926).monthCode, (hebrewFields 25590926).day) = (75795, ⟨1, false⟩, 8) ∧
    ¬ Consecutive (hebrewFields 25590925) (hebrewFields 25590926) ∧
    (hebrewFields 25591278).day = 0 ∧ ¬ FieldsOk (hebrewFields 25591278) ∧
    hebrewFieldsChecked 25591277 = .panic := by
  decide +kernel

/-- the hypotheses are satisfiable: 2024-03-15 and the day after -/
example : Good 19797 ∧ Good 19798 ∧ (hebrewFields 19797).render = "hebrew 5784 5784 7 M06 5 182 29 383 13 1" := by
  decide +kernel
example : hebrewSpec.Valid 5784 6 30 ∧ hebrewSpec.toDay 5784 6 30 = 19792 ∧ codeOf 5784 6 = ⟨5, true⟩ := by decide +kernel

end TemporalModel

#print axioms TemporalModel.C16_hebrew_year_lengths
#print axioms TemporalModel.C16_hebrew_daycount_inverse
#print axioms TemporalModel.C16_hebrew_rules_bounds
#print axioms TemporalModel.C16_hebrew_rules_consecutive
#print axioms TemporalModel.C16_hebrew_month_codes
#print axioms TemporalModel.C16_hebrew_coded_is_calendar
#print axioms TemporalModel.C16_hebrew_no_assertion_partial
#print axioms TemporalModel.C16_hebrew_fields_bounds_partial
#print axioms TemporalModel.C16_hebrew_consecutive_days_partial
#print axioms TemporalModel.C16_hebrew_rebuild_partial
#print axioms TemporalModel.C16_hebrew_gate_defect

set_option linter.unusedSimpArgs false
namespace TemporalModel
open Cal Cal.Heb Greg

theorem validateCode_codeOf (y : Int) (m : Nat) (h1 : 1 ≤ m) (h2 : m ≤ hebrewSpec.months y) :
    validateCode .hebrew (codeOf y m) = .ok () := by
  simp only [hebrewSpec] at h2
  cases hl : Heb.isLeap y <;> simp only [hl, Bool.false_eq_true, if_false, if_true] at h2
  · have hm : m = 1 ∨ m = 2 ∨ m = 3 ∨ m = 4 ∨ m = 5 ∨ m = 6 ∨ m = 7 ∨ m = 8 ∨ m = 9 ∨ m = 10 ∨ m = 11 ∨ m = 12 := by
      omega
    rcases hm with rfl | rfl | rfl | rfl | rfl | rfl | rfl | rfl | rfl | rfl | rfl | rfl <;>
      simp [validateCode, codeOf, hl]
  · have hm : m = 1 ∨ m = 2 ∨ m = 3 ∨ m = 4 ∨ m = 5 ∨ m = 6 ∨ m = 7 ∨ m = 8 ∨ m = 9 ∨ m = 10 ∨ m = 11 ∨ m = 12 ∨
        m = 13 := by omega
    rcases hm with rfl | rfl | rfl | rfl | rfl | rfl | rfl | rfl | rfl | rfl | rfl | rfl | rfl <;>
      simp [validateCode, codeOf, hl]

/-- Hebrew years of Temporal's range: −268059 … 279518. -/
theorem hebrew_year_bound (n : Int) (hn : InTemporalDays n) :
    -300000 ≤ (hebrewSpec.ofDay n).1 ∧ (hebrewSpec.ofDay n).1 ≤ 300000 := by
  obtain ⟨s1, s2⟩ := hebrewSpec_lawful.yearOf_spec n trivial
  have e : (hebrewSpec.ofDay n).1 = hebrewSpec.yearOf n := rfl
  rw [e]
  have b1 := newYearSpec_bounds (hebrewSpec.yearOf n)
  have b2 := newYearSpec_bounds (hebrewSpec.yearOf n + 1)
  have e1 : hebrewSpec.yearStart (hebrewSpec.yearOf n) = newYearSpec (hebrewSpec.yearOf n) := rfl
  have e2 : hebrewSpec.yearStart (hebrewSpec.yearOf n + 1) = newYearSpec (hebrewSpec.yearOf n + 1) := rfl
  rw [e1] at s1; rw [e2] at s2
  unfold InTemporalDays at hn
  unfold EPOCH at b1 b2
  constructor <;> omega

/-- **C16 (hebrew: `from_partial` rebuilds the date)**: for every ISO date of Temporal's range away from a molad at
    Saturday 18 h 0 p, `from_partial` with the reported year (or era and era year), month code and day returns the
    date, in either overflow mode. -/
theorem C16_hebrew_from_partial_partial (iso : IsoDate) (hr : InRange iso)
    (g : Good (dayNumber iso.year iso.month iso.day)) (ov : Option Overflow) :
    let f := hebrewFields (dayNumber iso.year iso.month iso.day)
    plainDateFromPartialHeb ⟨none, none, some f.year, none, some f.monthCode, some f.day⟩ ov = .ok iso ∧
    plainDateFromPartialHeb ⟨f.era, f.eraYear, none, none, some f.monthCode, some f.day⟩ ov = .ok iso := by
  intro f
  have hreb1 : hebrewFromCodes f.era f.year f.monthCode f.day = some (dayNumber iso.year iso.month iso.day) :=
    (C16_hebrew_rebuild_partial _ g).1
  have hreb2 : hebrewFromCodes none f.year f.monthCode f.day = some (dayNumber iso.year iso.month iso.day) :=
    (C16_hebrew_rebuild_partial _ g).2
  have hiso := isoOfDay_dayNumber iso hr
  have hyb := hebrew_year_bound _ (inRange_temporalDays iso hr)
  obtain ⟨⟨h1, h2, _, _⟩, _⟩ := ofDay_spec hebrewSpec_lawful (dayNumber iso.year iso.month iso.day) trivial
  have hv := validateCode_codeOf _ _ h1 h2
  have hf : f = hebrewFieldsSpec (dayNumber iso.year iso.month iso.day) := hebrewFields_eq_spec _ g
  have hgd : ¬ (f.year < -MAX_CALENDAR_YEAR ∨ f.year > MAX_CALENDAR_YEAR) := by
    rw [hf]; unfold MAX_CALENDAR_YEAR hebrewFieldsSpec hebrewFieldsOf; simp only; omega
  have hcode : validateCode .hebrew f.monthCode = .ok () := by
    rw [hf]; exact hv
  have hera : f.era = some "hebrew" ∧ f.eraYear = some f.year := by rw [hf]; exact ⟨rfl, rfl⟩
  constructor
  · unfold plainDateFromPartialHeb dateFromPartialHeb resolveFields resolveEraYear resolveCode
    simp only [hcode, resolveDay, Out.bind_ok, Out.pure_eq_ok, Option.isSome_some, Bool.true_or, Bool.or_true,
      Bool.not_true, Bool.false_or, Option.isNone_some, Bool.false_eq_true, if_false, hgd]
    rw [hreb2]
    simp only [Option.bind_some, hiso]
    exact newWithOverflow_of_inRange iso _ hr
  · have hi : eraInfo .hebrew "hebrew" = some ⟨"hebrew", none, none⟩ := by decide +kernel
    rw [hera.1] at hreb1
    unfold plainDateFromPartialHeb dateFromPartialHeb resolveFields resolveEraYear resolveCode
    rw [hera.1, hera.2]
    simp only [hi, EraInfo.contains, hcode, resolveDay, Out.bind_ok, Out.pure_eq_ok, Option.isSome_some,
      Bool.or_true, Bool.and_true, Bool.not_true, Bool.false_or, Option.isNone_some,
      Bool.false_eq_true, if_false, if_true, hgd]
    rw [hreb1]
    simp only [Option.bind_some, hiso]
    exact newWithOverflow_of_inRange iso _ hr

/-- **C16 (hebrew: where the code departs from the calendar)**: the Hebrew years of Temporal's range whose molad of
    Tishrei falls exactly on Saturday 18 h 0 p are −114910, 75795 and 193152, and every day of Temporal's range whose
    estimated Hebrew year is not one of those or a neighbour satisfies the hypothesis `Good` of the `_partial`
    theorems. -/
theorem C16_hebrew_exceptional_years :
    (∀ y : Int, -268059 ≤ y → y ≤ 279518 → (inWeek y = 174960 ↔ (y = -114910 ∨ y = 75795 ∨ y = 193152))) ∧
    (∀ n : Int, InTemporalDays n → ¬ InGateWindow n → Good n) :=
  ⟨gate_years, good_outside_windows⟩

/-- The C16 clauses for the code as written, for every ISO date of Temporal's range outside the three windows. -/
theorem C16_hebrew_in_range (iso : IsoDate) (hr : InRange iso)
    (hw : ¬ InGateWindow (Greg.dayNumber iso.year iso.month iso.day))
    (hw' : ¬ InGateWindow (Greg.dayNumber iso.year iso.month iso.day + 1))
    (hn' : InTemporalDays (Greg.dayNumber iso.year iso.month iso.day + 1)) (ov : Option Overflow) :
    let n := Greg.dayNumber iso.year iso.month iso.day
    FieldsOk (hebrewFields n) ∧ Consecutive (hebrewFields n) (hebrewFields (n + 1)) ∧
    hebrewFieldsChecked n = .ok (hebrewFields n) ∧
    plainDateFromPartialHeb ⟨none, none, some (hebrewFields n).year, none, some (hebrewFields n).monthCode,
      some (hebrewFields n).day⟩ ov = .ok iso := by
  intro n
  have g := good_outside_windows n (inRange_temporalDays iso hr) hw
  have g' := good_outside_windows (n + 1) hn' hw'
  exact ⟨C16_hebrew_fields_bounds_partial n g, C16_hebrew_consecutive_days_partial n g g',
    C16_hebrew_no_assertion_partial n g, (C16_hebrew_from_partial_partial iso hr g ov).1⟩

example : ¬ InGateWindow 19797 ∧ InGateWindow 25590925 := by decide +kernel


/-! ### Changing the calendar of a date-time or of a zoned date-time -/

/-- **C16 (changing the calendar keeps the ISO date-time)**: `PlainDateTime::with_calendar` rebuilds the value from
    its ISO fields; for a value that exists (valid date, valid time, inside the limits) that is the same value. -/
theorem C16_with_calendar_keeps_datetime (dt : IsoDateTime) (hv : Valid dt.date.year dt.date.month dt.date.day)
    (ht : dt.time.isValid = true) (hl : isoDtWithinValidLimits dt.date dt.time = true) :
    plainDateTimeTryNew dt.date.year dt.date.month dt.date.day dt.time.hour dt.time.minute dt.time.second
      dt.time.millisecond dt.time.microsecond dt.time.nanosecond = .ok dt := by
  unfold plainDateTimeTryNew plainTimeTryNew
  simp only [ht, if_true, Out.bind_ok, regulate_reject, hv, IsoDateTime.new, hl]

/-- **C16 (changing the calendar keeps the instant)**: `ZonedDateTime::with_calendar` rebuilds the value from its
    epoch nanoseconds, which are inside the instant range. -/
theorem C16_with_calendar_keeps_instant (ns : Int) (h : -nsMaxInstant ≤ ns ∧ ns ≤ nsMaxInstant) :
    instantTryNew ns = .ok ns := by
  unfold instantTryNew; rw [if_pos h]

end TemporalModel

#print axioms TemporalModel.C16_hebrew_from_partial_partial

#print axioms TemporalModel.C16_hebrew_exceptional_years
#print axioms TemporalModel.C16_hebrew_in_range
#print axioms TemporalModel.C16_with_calendar_keeps_datetime
#print axioms TemporalModel.C16_with_calendar_keeps_instant
