/-
  Props/C10.lean — property C10: each operation accepts exactly the allowed option combinations.
  Enums are finite (case split); the increment is symbolic (any integer ≥ 1; the constructor of
  `RoundingIncrement` guarantees 1 ≤ inc ≤ 10^9).
-/
import TemporalModel.Lemmas.OptionLemmas
namespace TemporalModel

private theorem getD_ge_one (inc : Option Int) (hinc : ∀ i, inc = some i → 1 ≤ i) : 1 ≤ inc.getD 1 := by
  cases inc with
  | none => simp
  | some i => simpa using hinc i rfl

/-- **C10 (differences: until/since of every type).** For every unit group and fallbacks, `since`/`until`,
every largest/smallest unit or absence, every increment ≥ 1 and every mode or absence: the coded resolver
accepts iff the combination is allowed, resolves to the specified defaults (auto largest = larger of default
and smallest; trunc; `since` negates), and every rejection is a RangeError (never a panic). -/
theorem C10_diff_settings (g : UnitGroup) (fl fs : TUnit) (since : Bool)
    (L S : Option TUnit) (inc : Option Int) (mode : Option RMode)
    (hinc : ∀ i, inc = some i → 1 ≤ i) :
    fromDiffSettings ⟨L, S, inc, mode⟩ since g fl fs =
      ofOption (diffSettingsSpec g fl fs since L S inc mode) := by
  have hi := getD_ge_one inc hinc
  unfold fromDiffSettings diffSettingsSpec
  simp only [validate_auto, validate_none, checkIncrement_eq _ _ hi, unwrapUnitOr_eq,
    TUnit.max_comm (S.getD fs) fl]
  cases unitAllowed g true L <;> cases unitAllowed g false S <;>
    cases incrementAllowed (inc.getD 1) (S.getD fs) <;>
    (repeat (any_goals split)) <;> simp_all [ofOption] <;> rfl

/-- **C10 (Duration.round).** -/
theorem C10_duration_round (existing : TUnit) (L S : Option TUnit) (inc : Option Int) (mode : Option RMode)
    (hinc : ∀ i, inc = some i → 1 ≤ i) :
    fromDurationOptions ⟨L, S, inc, mode⟩ existing =
      ofOption (durationRoundSpec existing L S inc mode) := by
  have hi := getD_ge_one inc hinc
  unfold fromDurationOptions durationRoundSpec
  simp only [validate_auto, validate_none, checkIncrement_eq _ _ hi, unwrapUnitOr_eq]
  have hL : unitAllowed .dateTime true L = true := by
    rcases L with _ | u <;> (try cases u) <;> rfl
  rw [hL]
  have hS : unitAllowed .dateTime false S = !decide (S = some .auto) := by
    rcases S with _ | u <;> (try cases u) <;> rfl
  rw [hS]
  by_cases hs : S = some .auto
  · subst hs
    rcases L with _ | u <;> rfl
  · simp only [hs, decide_false, Bool.not_false, if_true, if_false, Out.bind_ok]
    generalize largestOrDefault L (existing.max (S.getD TUnit.nanosecond)) = l
    generalize S.getD TUnit.nanosecond = s
    generalize inc.getD 1 = i
    by_cases h1 : (L.isNone && S.isNone) = true <;> by_cases h2 : l < s <;>
      cases h3 : incrementAllowed i s <;> simp [h1, h2, ofOption]

/-- **C10 (PlainDateTime/ZonedDateTime.round).** -/
theorem C10_datetime_round (L S : Option TUnit) (inc : Option Int) (mode : Option RMode)
    (hinc : ∀ i, inc = some i → 1 ≤ i) :
    fromDatetimeOptions ⟨L, S, inc, mode⟩ = ofOption (datetimeRoundSpec S inc mode) := by
  have hi := getD_ge_one inc hinc
  unfold fromDatetimeOptions datetimeRoundSpec
  rcases S with _ | s
  · rfl
  · generalize inc.getD 1 = i at *
    cases s <;>
      simp only [UnitGroup.validateRequiredUnit, UnitGroup.validateUnit, TUnit.isTimeUnit, 
        TUnit.maxRoundingIncrement, incrementValidate_excl, incrementValidate_incl, incrementAllowed, maxIncrementSpec,
        Out.pure_eq_ok, Out.bind_ok, Out.bind_err, guard_bind, reduceCtorEq, if_false, if_true, Bool.false_eq_true, Option.some.injEq]
    case day =>
      have : (decide (i ≤ 1) && decide (1 % i = 0)) = decide (i = 1) := by
        by_cases h : i = 1
        · subst h; rfl
        · have : ¬ i ≤ 1 := by omega
          simp [h, this]
      rw [this]; by_cases h : i = 1 <;> simp [h, ofOption]
    all_goals first | rfl | skip
    all_goals (unfold ofOption; (repeat' split) <;> simp_all <;> omega)

/-- **C10 (Instant.round).** -/
theorem C10_instant_round (L S : Option TUnit) (inc : Option Int) (mode : Option RMode) :
    fromInstantOptions ⟨L, S, inc, mode⟩ = ofOption (instantRoundSpec S inc mode) := by
  unfold fromInstantOptions instantRoundSpec
  rcases S with _ | s
  · rfl
  · generalize inc.getD 1 = i at *
    cases s <;>
      simp only [UnitGroup.validateRequiredUnit, UnitGroup.validateUnit, TUnit.isTimeUnit, dayLengthIn,
        incrementValidate_incl, Out.pure_eq_ok, Out.bind_ok, Out.bind_err, guard_bind, reduceCtorEq, if_false, if_true, Bool.false_eq_true]
    all_goals first | rfl | skip
    all_goals (unfold ofOption; (repeat' split) <;> simp_all <;> omega)

/-- **C10 (toString precision).** For every smallest unit or absence, every `u8` digit count, every mode. -/
theorem C10_to_string (p : Precision) (S : Option TUnit) (mode : Option RMode) :
    toStringResolve p S mode = ofOption (toStringSpec p S mode) := by
  unfold toStringResolve toStringSpec
  rcases S with _ | s
  · cases p with
    | auto => rfl
    | minute => rfl
    | digit d =>
      by_cases h9 : d ≤ 9
      · have : d = 0 ∨ d = 1 ∨ d = 2 ∨ d = 3 ∨ d = 4 ∨ d = 5 ∨ d = 6 ∨ d = 7 ∨ d = 8 ∨ d = 9 := by omega
        rcases this with h | h | h | h | h | h | h | h | h | h <;> subst h <;> rfl
      · match d, h9 with
        | d + 10, _ =>
          simp only [ofOption]
          have h1 : ¬ (1 ≤ d + 10 ∧ d + 10 ≤ 3) := by omega
          have h2 : ¬ (4 ≤ d + 10 ∧ d + 10 ≤ 6) := by omega
          have h3 : ¬ (7 ≤ d + 10 ∧ d + 10 ≤ 9) := by omega
          have h4 : d + 10 > 9 := by omega
          simp [h1, h2, h3, h4]
  · cases s <;> rfl

/-- toString with `n` digits rounds to 10^(9−n) nanoseconds. -/
theorem C10_to_string_digits (d : Nat) (h : d ≤ 9) (mode : Option RMode) :
    ∃ u k, toStringResolve (.digit d) none mode = .ok ⟨.digit d, u, mode.getD .trunc, k⟩ ∧
      k * ((u.asNanoseconds.getD 1 : Nat) : Int) = 10 ^ (9 - d) := by
  have : d = 0 ∨ d = 1 ∨ d = 2 ∨ d = 3 ∨ d = 4 ∨ d = 5 ∨ d = 6 ∨ d = 7 ∨ d = 8 ∨ d = 9 := by omega
  rcases this with h | h | h | h | h | h | h | h | h | h <;> subst h <;>
    exact ⟨_, _, rfl, by decide⟩

/-- No resolver panics or reports an internal assertion, whatever the options. -/
theorem C10_never_panics (g : UnitGroup) (fl fs existing : TUnit) (since : Bool)
    (L S : Option TUnit) (inc : Option Int) (mode : Option RMode) (p : Precision)
    (hinc : ∀ i, inc = some i → 1 ≤ i) :
    (∀ o, o ∈ [fromDiffSettings ⟨L, S, inc, mode⟩ since g fl fs,
               fromDurationOptions ⟨L, S, inc, mode⟩ existing,
               fromDatetimeOptions ⟨L, S, inc, mode⟩,
               fromInstantOptions ⟨L, S, inc, mode⟩] → o ≠ .panic ∧ o ≠ .err .assert) ∧
    (toStringResolve p S mode ≠ .panic ∧ toStringResolve p S mode ≠ .err .assert) := by
  have key : ∀ {α} (x : Option α), ofOption x ≠ .panic ∧ ofOption x ≠ .err .assert := by
    intro α x; cases x <;> simp [ofOption]
  refine ⟨?_, ?_⟩
  · intro o ho
    simp only [List.mem_cons, List.mem_nil_iff, or_false] at ho
    rcases ho with rfl | rfl | rfl | rfl
    · rw [C10_diff_settings _ _ _ _ _ _ _ _ hinc]; exact key _
    · rw [C10_duration_round _ _ _ _ _ hinc]; exact key _
    · rw [C10_datetime_round _ _ _ _ hinc]; exact key _
    · rw [C10_instant_round]; exact key _
  · rw [C10_to_string]; exact key _

/-- Defaults of a difference with no options at all. -/
theorem C10_diff_defaults (g : UnitGroup) (fl fs : TUnit) (since : Bool) (h : ¬ fl.max fs < fs) :
    fromDiffSettings ⟨none, none, none, none⟩ since g fl fs =
      .ok ⟨fl.max fs, fs, 1, .trunc⟩ := by
  rw [C10_diff_settings _ _ _ _ _ _ _ _ (by intro i hi; cases hi)]
  cases fs <;> cases since <;> simp [diffSettingsSpec, unitAllowed, largestOrDefault, ofOption, h, incrementAllowed,
    maxIncrementSpec, RMode.negate]

/-! Non-vacuity / concrete cells (kernel-decided). -/
example : fromDiffSettings ⟨some .auto, none, some 1, none⟩ false .time .hour .nanosecond
    = .ok ⟨.hour, .nanosecond, 1, .trunc⟩ := by decide
example : fromDiffSettings ⟨none, some .auto, none, none⟩ false .date .day .day = .err .range := by decide
example : fromDiffSettings ⟨none, some .hour, some 5, some .ceil⟩ true .time .hour .nanosecond = .err .range := by decide
example : fromDiffSettings ⟨none, some .hour, some 6, some .ceil⟩ true .time .hour .nanosecond
    = .ok ⟨.hour, .hour, 6, .floor⟩ := by decide
example : fromDurationOptions ⟨none, none, none, none⟩ .day = .err .range := by decide

end TemporalModel

#print axioms TemporalModel.C10_diff_settings
#print axioms TemporalModel.C10_duration_round
#print axioms TemporalModel.C10_datetime_round
#print axioms TemporalModel.C10_instant_round
#print axioms TemporalModel.C10_to_string
#print axioms TemporalModel.C10_to_string_digits
#print axioms TemporalModel.C10_never_panics
#print axioms TemporalModel.C10_diff_defaults
