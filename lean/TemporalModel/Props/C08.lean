/-
  Props/C08.lean — property C08: rounding / totalling / comparing a duration relative to a plain date is
  add-then-remeasure in exact arithmetic.

  What is proved here, for every input:
   * the calendar-unit nudge rounds the *exact rational* position `r1 + step·num/den` between the two bracket
     dates to a multiple of the increment per RoundNumberToIncrement (no floating point involved), and lands on
     one of the two bracket ends whenever the destination lies inside the bracket;
   * the day-or-time nudge rounds the exact nanosecond total and splits it into whole days and a remainder;
   * totals in a time unit are the correctly rounded double of the exact quotient;
   * `compare` relative to a date orders two durations as the instants they lead to.
  The add / re-measure steps themselves (date addition with constrain, until with a largest unit) are the C04/C05
  models, proved in Props/C04.lean and Props/C05.lean.  Bubbling and the composition of the full pipeline are
  covered by the correspondence only (see DESIGN.md, C08).
-/
import TemporalModel.Model.Relative
import TemporalModel.Props.C07
import TemporalModel.Props.C09
namespace TemporalModel

private theorem ring_e2 (inc D t : Int) : inc * D * t + inc * D = inc * (t + 1) * D := by grind

private theorem tdiv_mul_cancel (m D : Int) (hD : 0 < D) : Int.tdiv (m * D) D = m :=
  Int.mul_tdiv_cancel _ (Int.ne_of_gt hD)

/-- **C08 (calendar nudge, exactness).**  For a bracket of positive length `D`, any `r1`, `step`, numerator and
positive increment: the coded result, scaled by `D`, is RoundNumberToIncrement of the exact numerator
`r1·D + step·num` to the increment `inc·D`; i.e. it is the rounding of the rational `r1 + step·num/D` to a
multiple of `inc`, for all nine modes, with ties decided exactly. -/
theorem C08_calendar_nudge_exact (r1 step num D inc : Int) (mode : RMode) (hD : 0 < D) (hinc : 0 < inc) :
    nudgeRounded r1 step num D inc mode * D = roundSpec (r1 * D + step * num) (inc * D) mode ∧
    ∃ k, nudgeRounded r1 step num D inc mode = inc * k := by
  have hq : 0 < inc * D := Int.mul_pos hinc hD
  unfold nudgeRounded
  rw [← C07_round_eq_spec _ _ _ hq]
  generalize r1 * D + step * num = x
  rcases C07_result_is_neighbour x (inc * D) mode hq with h | h <;> rw [h] <;> unfold lowerMultiple
  · have e : inc * D * (x / (inc * D)) = inc * (x / (inc * D)) * D := Int.mul_right_comm _ _ _
    rw [e, tdiv_mul_cancel _ _ hD]
    exact ⟨rfl, _, rfl⟩
  · have e : inc * D * (x / (inc * D)) + inc * D = inc * (x / (inc * D) + 1) * D := ring_e2 _ _ _
    rw [e, tdiv_mul_cancel _ _ hD]
    exact ⟨rfl, _, rfl⟩

private theorem bracket_fwd (k num D inc : Int) (mode : RMode) (hD : 0 < D) (hinc : 0 < inc)
    (h0 : 0 ≤ num) (h1 : num ≤ D) :
    nudgeRounded (inc * k) inc num D inc mode = inc * k ∨
    nudgeRounded (inc * k) inc num D inc mode = inc * k + inc := by
  have hq : 0 < inc * D := Int.mul_pos hinc hD
  have hin : 0 ≤ inc * num := Int.mul_nonneg (Int.le_of_lt hinc) h0
  unfold nudgeRounded
  have ex : inc * k * D + inc * num = inc * num + inc * D * k := by grind
  rw [ex]
  by_cases hend : num = D
  · subst hend
    have : inc * num + inc * num * k = inc * num * (k + 1) := by grind
    rw [this, C07_multiple_fixed _ _ _ hq]
    right
    have : inc * num * (k + 1) = (inc * k + inc) * num := by grind
    rw [this, tdiv_mul_cancel _ _ hD]
  · have hlt : inc * num < inc * D := by
      have : num < D := by omega
      exact Int.mul_lt_mul_of_pos_left this hinc
    have hdiv : (inc * num + inc * D * k) / (inc * D) = k := by
      rw [Int.add_mul_ediv_left _ _ (Int.ne_of_gt hq), Int.ediv_eq_zero_of_lt hin hlt]; omega
    rcases C07_result_is_neighbour (inc * num + inc * D * k) (inc * D) mode hq with h | h <;>
      rw [h] <;> unfold lowerMultiple <;> rw [hdiv]
    · left
      have : inc * D * k = inc * k * D := by grind
      rw [this, tdiv_mul_cancel _ _ hD]
    · right
      have : inc * D * k + inc * D = (inc * k + inc) * D := by grind
      rw [this, tdiv_mul_cancel _ _ hD]

private theorem bracket_bwd (k num D inc : Int) (mode : RMode) (hD : 0 < D) (hinc : 0 < inc)
    (h0 : 0 ≤ num) (h1 : num ≤ D) :
    nudgeRounded (inc * k) (-inc) num D inc mode = inc * k ∨
    nudgeRounded (inc * k) (-inc) num D inc mode = inc * k + -inc := by
  have hq : 0 < inc * D := Int.mul_pos hinc hD
  have hle : inc * num ≤ inc * D := Int.mul_le_mul_of_nonneg_left h1 (Int.le_of_lt hinc)
  unfold nudgeRounded
  by_cases hstart : num = 0
  · subst hstart
    have : inc * k * D + -inc * 0 = inc * D * k := by grind
    rw [this, C07_multiple_fixed _ _ _ hq]
    left
    have : inc * D * k = inc * k * D := by grind
    rw [this, tdiv_mul_cancel _ _ hD]
  · have hpos : 0 < inc * num := Int.mul_pos hinc (by omega)
    have ex : inc * k * D + -inc * num = (inc * D - inc * num) + inc * D * (k - 1) := by grind
    rw [ex]
    have hdiv : ((inc * D - inc * num) + inc * D * (k - 1)) / (inc * D) = k - 1 := by
      rw [Int.add_mul_ediv_left _ _ (Int.ne_of_gt hq), Int.ediv_eq_zero_of_lt (by omega) (by omega)]; omega
    rcases C07_result_is_neighbour ((inc * D - inc * num) + inc * D * (k - 1)) (inc * D) mode hq with h | h <;>
      rw [h] <;> unfold lowerMultiple <;> rw [hdiv]
    · right
      have : inc * D * (k - 1) = (inc * k + -inc) * D := by grind
      rw [this, tdiv_mul_cancel _ _ hD]
    · left
      have : inc * D * (k - 1) + inc * D = inc * k * D := by grind
      rw [this, tdiv_mul_cancel _ _ hD]

/-- **C08 (calendar nudge, bracket).**  When `r1` is a multiple of the increment, the step is one increment in the
direction of the duration and the destination lies inside the bracket (`0 ≤ num ≤ D`), the result is one of the
two bracket ends `r1`, `r1 + step` — never beyond. -/
theorem C08_calendar_nudge_bracket (k num D inc : Int) (mode : RMode) (hD : 0 < D) (hinc : 0 < inc)
    (h0 : 0 ≤ num) (h1 : num ≤ D) (step : Int) (hs : step = inc ∨ step = -inc) :
    nudgeRounded (inc * k) step num D inc mode = inc * k ∨
    nudgeRounded (inc * k) step num D inc mode = inc * k + step := by
  cases hs with
  | inl h => rw [h]; exact bracket_fwd k num D inc mode hD hinc h0 h1
  | inr h => rw [h]; exact bracket_bwd k num D inc mode hD hinc h0 h1

/-- Half-way ties of the calendar nudge are decided on the exact numerator: `2·num = D` is a tie and nothing else
is (stated for the forward direction with halfExpand / halfTrunc, the two modes that differ only on ties). -/
theorem C08_calendar_nudge_tie (k num D inc : Int) (hD : 0 < D) (hinc : 0 < inc) (h0 : 0 < num) (h1 : num < D) :
    (2 * num < D → nudgeRounded (inc * k) inc num D inc .halfExpand = inc * k) ∧
    (2 * num > D → nudgeRounded (inc * k) inc num D inc .halfTrunc = inc * k + inc) ∧
    (2 * num = D → 0 ≤ k → nudgeRounded (inc * k) inc num D inc .halfExpand = inc * k + inc ∧
                          nudgeRounded (inc * k) inc num D inc .halfTrunc = inc * k) := by
  have hq : 0 < inc * D := Int.mul_pos hinc hD
  have hin : 0 < inc * num := Int.mul_pos hinc h0
  have hlt : inc * num < inc * D := Int.mul_lt_mul_of_pos_left h1 hinc
  have ex : inc * k * D + inc * num = inc * num + inc * D * k := by grind
  have hdiv : (inc * num + inc * D * k) / (inc * D) = k := by
    rw [Int.add_mul_ediv_left _ _ (Int.ne_of_gt hq), Int.ediv_eq_zero_of_lt (by omega) hlt]; omega
  have e1 : inc * D * k = inc * k * D := by grind
  have e2 : inc * D * k + inc * D = (inc * k + inc) * D := by grind
  have e3 : 2 * (inc * num) = inc * (2 * num) := by grind
  have hk : 0 ≤ k → 0 ≤ inc * D * k := fun h => Int.mul_nonneg (Int.le_of_lt hq) h
  unfold nudgeRounded
  rw [ex]
  refine ⟨?_, ?_, ?_⟩
  · intro h
    have h' : inc * (2 * num) < inc * D := Int.mul_lt_mul_of_pos_left h hinc
    rw [C07_round_eq_spec _ _ _ hq]; unfold roundSpec lowerMultiple; rw [hdiv]
    simp only []
    rw [if_neg (by omega), if_pos (by omega), e1, tdiv_mul_cancel _ _ hD]
  · intro h
    have h' : inc * D < inc * (2 * num) := Int.mul_lt_mul_of_pos_left h hinc
    rw [C07_round_eq_spec _ _ _ hq]; unfold roundSpec lowerMultiple; rw [hdiv]
    simp only []
    rw [if_neg (by omega), if_neg (by omega), if_pos (by omega), e2, tdiv_mul_cancel _ _ hD]
  · intro h hk0
    have h' : inc * (2 * num) = inc * D := by rw [h]
    have := hk hk0
    refine ⟨?_, ?_⟩ <;> rw [C07_round_eq_spec _ _ _ hq] <;> unfold roundSpec lowerMultiple <;> rw [hdiv] <;>
      simp only []
    · rw [if_neg (by omega), if_neg (by omega), if_neg (by omega), if_pos (by omega), e2, tdiv_mul_cancel _ _ hD]
    · rw [if_neg (by omega), if_neg (by omega), if_neg (by omega), if_pos (by omega), e1, tdiv_mul_cancel _ _ hD]

private theorem normChecked_ok {x y : Int} (h : normChecked x = .ok y) :
    y = x ∧ (x.natAbs : Int) ≤ Dur.MAX_TIME_DURATION := by
  unfold normChecked at h
  split at h
  · cases h
  · cases h; exact ⟨rfl, by omega⟩

private theorem new_ok {d r : Dur} (h : Dur.new d = .ok r) : r = d := by
  unfold Dur.new at h; split at h <;> cases h; rfl

/-- **C08 (day-or-time nudge).**  Whenever the coded step succeeds: the exact total `n` (time part plus 24-hour
days) is rounded by RoundNumberToIncrement; with a largest unit of days or above the result's days and remainder
recombine to exactly that rounded total with the remainder inside one day and of the same sign; the calendar
fields are untouched; and the nudged instant moved by exactly the rounding difference. -/
theorem C08_day_time_nudge (destNs : Int) (date : Dur) (norm : Int) (o : Resolved) (len : Nat) (r : NudgeRecord)
    (hlen : o.smallest.asNanoseconds = some len) (hl : 0 < len) (hinc : 0 < o.increment)
    (hL : o.largest.max .day = o.largest)
    (h : nudgeToDayOrTime destNs date norm o = .ok r) :
    let n := norm + F64.toI64Sat date.days * NS_PER_DAY
    let rounded := roundSpec n (len * o.increment) o.mode
    r.date.days * NS_PER_DAY + r.norm = rounded ∧
    (r.norm.natAbs : Int) < NS_PER_DAY ∧ (0 ≤ rounded → 0 ≤ r.norm) ∧ (rounded ≤ 0 → r.norm ≤ 0) ∧
    r.nudgeEpochNs - destNs = rounded - n ∧
    r.date.years = date.years ∧ r.date.months = date.months ∧ r.date.weeks = date.weeks := by
  have hq : 0 < (len : Int) * o.increment := Int.mul_pos (by omega) hinc
  intro n rounded
  unfold nudgeToDayOrTime at h
  simp only [hlen] at h
  cases h1 : normChecked (norm + F64.toI64Sat date.days * NS_PER_DAY) with
  | err e => rw [h1] at h; cases h
  | panic => rw [h1] at h; cases h
  | ok n' =>
    rw [h1] at h
    obtain ⟨rfl, _⟩ := normChecked_ok h1
    simp only [Out.bind_ok, C07_round_eq_spec _ _ _ hq] at h
    cases h2 : normChecked (roundSpec (norm + F64.toI64Sat date.days * NS_PER_DAY) (len * o.increment) o.mode) with
    | err e => rw [h2] at h; cases h
    | panic => rw [h2] at h; cases h
    | ok rd =>
      rw [h2] at h
      obtain ⟨rfl, hb⟩ := normChecked_ok h2
      simp only [Out.bind_ok] at h
      cases h3 : normChecked (roundSpec (norm + F64.toI64Sat date.days * NS_PER_DAY) (len * o.increment) o.mode -
          (norm + F64.toI64Sat date.days * NS_PER_DAY)) with
      | err e => rw [h3] at h; cases h
      | panic => rw [h3] at h; cases h
      | ok df =>
        rw [h3] at h
        obtain ⟨rfl, _⟩ := normChecked_ok h3
        simp only [Out.bind_ok, hL, if_true] at h
        -- name the rounded total
        have hrd : roundSpec (norm + F64.toI64Sat date.days * NS_PER_DAY) (len * o.increment) o.mode = rounded := rfl
        rw [hrd] at h hb
        unfold Dur.MAX_TIME_DURATION at hb
        have hdm := Int.tdiv_mul_add_tmod rounded NS_PER_DAY
        have hm1 := Int.tmod_lt_of_pos rounded (show (0:Int) < NS_PER_DAY by decide)
        have hm2 : -NS_PER_DAY < Int.tmod rounded NS_PER_DAY := by
          have := Int.lt_tmod_of_pos rounded (show (0:Int) < NS_PER_DAY by decide); omega
        have hsgn1 : 0 ≤ rounded → 0 ≤ Int.tmod rounded NS_PER_DAY := fun h => Int.tmod_nonneg _ h
        have hsgn2 : rounded ≤ 0 → Int.tmod rounded NS_PER_DAY ≤ 0 := by
          intro h
          have : Int.tmod rounded NS_PER_DAY = -(Int.tmod (-rounded) NS_PER_DAY) := by rw [Int.neg_tmod]; omega
          have := Int.tmod_nonneg NS_PER_DAY (show 0 ≤ -rounded by omega); omega
        have hdays : ((Int.tdiv rounded NS_PER_DAY).natAbs : Int) ≤ 9007199254740992 := by
          unfold NS_PER_DAY at hdm hm1 hm2 ⊢; omega
        rw [ofInt_small _ hdays] at h
        cases h4 : Dur.new (dateDur date.years date.months date.weeks (Int.tdiv rounded NS_PER_DAY)) with
        | err e => rw [h4] at h; cases h
        | panic => rw [h4] at h; cases h
        | ok d =>
          rw [h4] at h
          have hd := new_ok h4
          subst hd
          simp only [Out.bind_ok] at h
          split at h
          · cases h
          · cases h
            simp only [dateDur]
            refine ⟨by unfold NS_PER_DAY at hdm ⊢; omega, by omega, hsgn1, hsgn2, by omega, ?_⟩
            simp

/-- **C08 (total in a time unit or days).**  The total relative to a date in a non-calendar unit is the correctly
rounded double of the exact quotient of the re-measured nanoseconds by the unit length. -/
theorem C08_total_time_units (date : Dur) (norm destNs : Int) (dt : IsoDateTime) (unit : TUnit) (len : Nat)
    (hu : unit.isCalendarUnit = false) (hlen : unit.asNanoseconds = some len) (n : Int)
    (hn : normChecked (norm + F64.toI64Sat date.days * NS_PER_DAY) = .ok n) :
    totalRelativeDuration date norm destNs dt unit = .ok (durationTotal n len) := by
  unfold totalRelativeDuration
  simp [hu, hn, hlen]

/-- The instant a duration leads to from a reference date: calendar part added with constrain, then exact days
and time (nanoseconds since the epoch day of the reference, up to the common offset). -/
def destinationNs (d : Dur) (rel : IsoDate) (later : IsoDate) : Int :=
  (isoDateToEpochDays later.year later.month later.day - isoDateToEpochDays rel.year rel.month rel.day
    + F64.toI64Sat d.days) * NS_PER_DAY + d.timeNs

/-- **C08 (compare).**  Relative to a date, two different durations with calendar units are ordered as the instants
they lead to: each calendar part is added to the reference date (constrain), days and time are added exactly, and
the resulting instants are compared. -/
theorem C08_compare_orders_destinations (a b : Dur) (rel la lb : IsoDate) (hne : a ≠ b)
    (hcal : a.defaultLargestUnit.isCalendarUnit ∨ b.defaultLargestUnit.isCalendarUnit)
    (ha : ¬ (a.years = 0 ∧ a.months = 0 ∧ a.weeks = 0)) (hb : ¬ (b.years = 0 ∧ b.months = 0 ∧ b.weeks = 0))
    (hla : plainDateAdd rel (dateDur a.years a.months a.weeks 0) .constrain = .ok la)
    (hlb : plainDateAdd rel (dateDur b.years b.months b.weeks 0) .constrain = .ok lb)
    (ba : ((destinationNs a rel la).natAbs : Int) ≤ Dur.MAX_TIME_DURATION)
    (bb : ((destinationNs b rel lb).natAbs : Int) ≤ Dur.MAX_TIME_DURATION) :
    Dur.compareRelPlainDate a b rel = .ok (cmpInt (destinationNs a rel la) (destinationNs b rel lb)) := by
  unfold Dur.compareRelPlainDate dateDurationDays
  simp only [if_neg hne, if_pos hcal, if_neg ha, if_neg hb, hla, hlb, Out.bind_ok, Out.pure_eq_ok]
  have ea : a.timeNs + (F64.toI64Sat a.days + (isoDateToEpochDays la.year la.month la.day -
      isoDateToEpochDays rel.year rel.month rel.day)) * NS_PER_DAY = destinationNs a rel la := by
    unfold destinationNs; unfold NS_PER_DAY; omega
  have eb : b.timeNs + (F64.toI64Sat b.days + (isoDateToEpochDays lb.year lb.month lb.day -
      isoDateToEpochDays rel.year rel.month rel.day)) * NS_PER_DAY = destinationNs b rel lb := by
    unfold destinationNs; unfold NS_PER_DAY; omega
  rw [ea, eb]
  unfold normChecked
  rw [if_neg (by omega), if_neg (by omega)]
  simp only [Out.bind_ok, cmpInt]

/-- `compare` of a duration with itself is 0 whatever the reference. -/
theorem C08_compare_refl (a : Dur) (rel : IsoDate) : Dur.compareRelPlainDate a a rel = .ok 0 := by
  unfold Dur.compareRelPlainDate; simp

/-! Non-vacuity: concrete instances of the hypotheses / the property's named shapes (kernel-decided). -/
-- 182 of 365 days, halfTrunc → down; 183 of 365 → up; 183 of 366 is a tie
example : nudgeRounded 0 1 182 365 1 .halfTrunc = 0 := by decide
example : nudgeRounded 0 1 183 365 1 .halfExpand = 1 := by decide
example : nudgeRounded 0 1 183 366 1 .halfExpand = 1 ∧ nudgeRounded 0 1 183 366 1 .halfTrunc = 0 := by decide
example : nudgeRounded 0 (-1) 183 366 1 .halfExpand = -1 ∧ nudgeRounded 0 (-1) 183 366 1 .halfTrunc = 0 := by decide

end TemporalModel

#print axioms TemporalModel.C08_calendar_nudge_exact
#print axioms TemporalModel.C08_calendar_nudge_bracket
#print axioms TemporalModel.C08_calendar_nudge_tie
#print axioms TemporalModel.C08_day_time_nudge
#print axioms TemporalModel.C08_total_time_units
#print axioms TemporalModel.C08_compare_orders_destinations
#print axioms TemporalModel.C08_compare_refl
