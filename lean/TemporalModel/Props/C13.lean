/-
  Props/C13.lean — property C13: wall-clock ↔ instant conversion follows the zone's offsets and the options.

  Zones are arbitrary transition tables (`Zone`: initial offset + list of (instant, new offset)); nothing is assumed
  about the table except where a hypothesis says so.
-/
import TemporalModel.Spec.Zone
import TemporalModel.Props.C01
import TemporalModel.Lemmas.TimeLemmas
import TemporalModel.Lemmas.SafeBase
import TemporalModel.Lemmas.DateLemmas
namespace TemporalModel
open ZoneSpec

/-! ### What a provider must answer -/

theorem lookup_mem_offsets (z : Zone) (t : Int) : z.offsetAt t ∈ z.initial :: z.trans.map (·.2) := by
  unfold Zone.offsetAt Zone.lookup
  suffices h : ∀ (l : List (Int × Int)) (acc : Int × Option Int) (known : List Int), acc.1 ∈ known →
      (l.foldl (fun acc tr => if tr.1 ≤ t then (tr.2, some tr.1) else acc) acc).1 ∈ known ++ l.map (·.2) by
    have := h z.trans (z.initial, none) [z.initial] (by simp)
    simpa using this
  intro l
  induction l with
  | nil => intro acc known h; simpa using h
  | cons tr rest ih =>
    intro acc known h
    simp only [List.foldl_cons, List.map_cons]
    have := ih (if tr.1 ≤ t then (tr.2, some tr.1) else acc) (known ++ [tr.2]) (by
      split
      · simp
      · simp [h])
    simpa [List.append_assoc] using this

/-- **C13 (instants of a reading).** For every transition table, `possible` lists exactly the instants whose
wall-clock reading — the instant shifted by the offset in force at that instant — is the given reading. -/
theorem C13_possible_iff (z : Zone) (localNs t : Int) :
    t ∈ z.possible localNs ↔ wall z t = localNs := by
  unfold Zone.possible wall
  simp only [List.mem_mergeSort, List.mem_filterMap]
  constructor
  · rintro ⟨o, _, ho⟩
    split at ho
    · rename_i heq
      cases ho
      rw [heq]; omega
    · cases ho
  · intro h
    refine ⟨z.offsetAt (t / 1000000000), ?_, ?_⟩
    · unfold Zone.offsets
      rw [List.mem_eraseDups]
      exact lookup_mem_offsets z _
    · have e : localNs - z.offsetAt (t / 1000000000) * 1000000000 = t := by omega
      simp only [e, if_true]

/-- The instants are listed in ascending order (so "earlier" is the first and "later" the last). -/
theorem C13_possible_sorted (z : Zone) (localNs : Int) :
    (z.possible localNs).Pairwise (· ≤ ·) := by
  unfold Zone.possible
  have := List.pairwise_mergeSort (le := fun (a b : Int) => decide (a ≤ b))
    (by intro a b c; simp only [decide_eq_true_eq]; omega) (by intro a b; simp only [Bool.or_eq_true, decide_eq_true_eq]; omega)
    (z.offsets.filterMap (fun o =>
      let t := localNs - o * 1000000000
      if z.offsetAt (t / 1000000000) = o then some t else none))
  simpa using this

/-- **C13 (fixed offsets).** A fixed-offset zone has the same offset at every instant. -/
theorem C13_fixed_offset (m ns : Int) : (TZ.offset m).offsetNanosFor ns = m * 60000000000 := rfl

/-- A named zone's offset at an instant is the table's offset at the second containing it. -/
theorem C13_named_offset (z : Zone) (ns : Int) :
    ns + (TZ.named z).offsetNanosFor ns = wall z ns := rfl

/-! ### The wall-clock reading of an instant -/

private theorem ms_split (ms : Int) :
    ms / 3600000 % 24 * 3600000 + ms / 60000 % 60 * 60000 + ms / 1000 % 60 * 1000 + ms % 1000 = ms % 86400000 := by
  omega

/-- **C13 (instant → wall clock).** For every instant of the representable range and every offset of at most two
days, the date-time the code computes is a real calendar day with a valid time of day, and read back as
nanoseconds it is exactly the instant plus the offset. -/
theorem C13_wall_exact (ns off : Int) (hns : (ns.natAbs : Int) ≤ 8640000000000000000000)
    (hoff : (off.natAbs : Int) ≤ 172800000000000) :
    ∃ dt, IsoDateTime.fromEpochNanos ns off = .ok dt ∧
      toUncheckedEpochNanoseconds dt.date dt.time = ns + off ∧
      dt.time.isValid = true ∧ Greg.Valid dt.date.year dt.date.month dt.date.day := by
  unfold IsoDateTime.fromEpochNanos
  dsimp only
  have hrem0 := Int.emod_nonneg ns (show (1000000:Int) ≠ 0 by decide)
  have hrem1 := Int.emod_lt_of_pos ns (show (0:Int) < 1000000 by decide)
  rw [if_neg (by omega)]
  generalize hms : (ns - ns % 1000000) / 1000000 = ms
  have hms' : ns = ms * 1000000 + ns % 1000000 := by omega
  generalize hn0 : ms / MS_PER_DAY = n0
  have hn0r : -100000001 ≤ n0 ∧ n0 ≤ 100000001 := by unfold MS_PER_DAY at hn0; omega
  obtain ⟨y, m, d, hy, hv, hw, hdn⟩ := C01_fromDays n0 (by unfold InDayWin; omega)
  rw [hy]
  dsimp only
  -- the time of day balances exactly, carrying whole days
  have hb := balance_exact (ms / 3600000 % 24) (ms / 60000 % 60) (ms / 1000 % 60) (ms % 1000) (ns % 1000000 / 1000)
    (ns % 1000000 % 1000 + off)
  unfold IsoDateTime.balance
  generalize hbal : IsoTime.balance (ms / 3600000 % 24) (ms / 60000 % 60) (ms / 1000 % 60) (ms % 1000)
    (ns % 1000000 / 1000) (ns % 1000000 % 1000 + off) = bt at hb
  obtain ⟨k, time⟩ := bt
  dsimp only at hb ⊢
  obtain ⟨hsum, hvalid⟩ := hb
  have hsplit := ms_split ms
  have hday : ms % 86400000 = ms - n0 * 86400000 := by unfold MS_PER_DAY at hn0; omega
  have htn := toNs_range time hvalid
  -- the carry is at most two days either way
  have hk : -3 ≤ k ∧ k ≤ 3 := by omega
  obtain ⟨y', m', d', hbd, hv', hdn'⟩ := C01_balance y m d k hv hw (by unfold InDayWin; omega)
  unfold IsoDate.balance
  rw [hbd]
  refine ⟨_, rfl, ?_, hvalid, hv'⟩
  dsimp only
  unfold toUncheckedEpochNanoseconds IsoDate.toEpochDays
  dsimp only
  have hw' : InWin y' := by
    have := dayNumber_year_bound y' m' d' hv'
    unfold InWin; omega
  rw [C01_toDays y' m' d' hw' hv'.1 hv'.2.1, hdn', hdn]
  unfold IsoTime.toEpochMs MS_PER_DAY
  unfold IsoTime.toNs at hsum
  omega

/-! ### Disambiguation -/

/-- **C13 (unique and repeated readings).** One instant: it is returned whatever the option. Several instants:
the first (earliest) under compatible / earlier, the last (latest) under later, a RangeError under reject. -/
theorem C13_disambiguate_matches (tz : TZ) (iso : IsoDateTime) (x y : Int) (rest : List Int) (d : Disamb) :
    tz.disambiguate [x] iso d = .ok x ∧
    tz.disambiguate (x :: y :: rest) iso .compatible = .ok x ∧
    tz.disambiguate (x :: y :: rest) iso .earlier = .ok x ∧
    tz.disambiguate (x :: y :: rest) iso .later = .ok ((x :: y :: rest).getLast?.getD x) ∧
    tz.disambiguate (x :: y :: rest) iso .reject = .err .range ∧
    tz.disambiguate [] iso .reject = .err .range := by
  refine ⟨rfl, rfl, rfl, rfl, rfl, rfl⟩

/-- The specification function agrees: matches are resolved the same way. -/
theorem C13_spec_matches (z : Zone) (localNs x y : Int) (rest : List Int) (h : z.possible localNs = x :: y :: rest) :
    instant z localNs .compatible = some x ∧ instant z localNs .earlier = some x ∧
    instant z localNs .later = some ((y :: rest).getLast?.getD y) ∧ instant z localNs .reject = none := by
  unfold instant; rw [h]; exact ⟨rfl, rfl, rfl, rfl⟩

/-! ### A skipped reading: any gap size -/

private theorem lookup_single (ob T oa t : Int) :
    (⟨ob, [(T, oa)]⟩ : Zone).offsetAt t = if T ≤ t then oa else ob := by
  unfold Zone.offsetAt Zone.lookup
  simp only [List.foldl_cons, List.foldl_nil]
  split <;> rfl

/-- **C13 (skipped readings, whatever the size of the gap).** In a zone with one transition at second `T` from
offset `ob` to a larger offset `oa` (both shorter than a day — the gap `oa − ob` can be anything from a second to
almost two days), a reading inside the gap has no instant; the two probes one day before / after read `ob` and `oa`;
and the instants the code re-resolves are `local − ob` (reading shifted forward by the gap: compatible, later) and
`local − oa` (shifted backward: earlier) — exactly the specification's answer. -/
theorem C13_gap_any_size (ob oa T localNs : Int) (hlt : ob < oa)
    (hob : -86400 < ob) (hoa : oa < 86400)
    (h1 : (T + ob) * 1000000000 ≤ localNs) (h2 : localNs < (T + oa) * 1000000000) :
    let z : Zone := ⟨ob, [(T, oa)]⟩
    z.possible localNs = [] ∧
    (TZ.named z).offsetNanosFor (localNs - NS_PER_DAY) = ob * 1000000000 ∧
    (TZ.named z).offsetNanosFor (localNs + NS_PER_DAY) = oa * 1000000000 ∧
    z.possible (localNs + (oa * 1000000000 - ob * 1000000000)) = [localNs - ob * 1000000000] ∧
    z.possible (localNs - (oa * 1000000000 - ob * 1000000000)) = [localNs - oa * 1000000000] ∧
    instant z localNs .compatible = some (localNs - ob * 1000000000) ∧
    instant z localNs .later = some (localNs - ob * 1000000000) ∧
    instant z localNs .earlier = some (localNs - oa * 1000000000) := by
  intro z
  have hne1 : ob ≠ oa := by omega
  have hne2 : oa ≠ ob := by omega
  have hoffs : z.offsets = [ob, oa] := by
    show (ob :: [(T, oa)].map (·.2)).eraseDups = [ob, oa]
    simp [List.eraseDups_cons, hne2]
  -- a candidate with the old offset counts iff it lies before T, one with the new offset iff it does not
  have c_old : ∀ t x : Int, (if (if T ≤ t then oa else ob) = ob then some x else none) = if t < T then some x else none := by
    intro t x
    by_cases c : T ≤ t
    · rw [if_pos c, if_neg hne2, if_neg (by omega)]
    · rw [if_neg c, if_pos rfl, if_pos (by omega)]
  have c_new : ∀ t x : Int, (if (if T ≤ t then oa else ob) = oa then some x else none) = if T ≤ t then some x else none := by
    intro t x
    by_cases c : T ≤ t
    · rw [if_pos c, if_pos rfl, if_pos c]
    · rw [if_neg c, if_neg hne1, if_neg c]
  have hposs : ∀ L : Int, z.possible L =
      ((if (L - ob * 1000000000) / 1000000000 < T then [L - ob * 1000000000] else []) ++
       (if T ≤ (L - oa * 1000000000) / 1000000000 then [L - oa * 1000000000] else [])).mergeSort (· ≤ ·) := by
    intro L
    unfold Zone.possible
    rw [hoffs]
    simp only [z, List.filterMap_cons, List.filterMap_nil, lookup_single, c_old, c_new]
    by_cases c1 : (L - ob * 1000000000) / 1000000000 < T <;> by_cases c2 : T ≤ (L - oa * 1000000000) / 1000000000 <;>
      simp [c1, c2]
  have e0 : z.possible localNs = [] := by
    rw [hposs, if_neg (by omega), if_neg (by omega)]; simp
  have e1 : z.possible (localNs + (oa * 1000000000 - ob * 1000000000)) = [localNs - ob * 1000000000] := by
    rw [hposs, if_neg (by omega), if_pos (by omega)]
    have : localNs + (oa * 1000000000 - ob * 1000000000) - oa * 1000000000 = localNs - ob * 1000000000 := by omega
    rw [this]; simp
  have e2 : z.possible (localNs - (oa * 1000000000 - ob * 1000000000)) = [localNs - oa * 1000000000] := by
    rw [hposs, if_pos (by omega), if_neg (by omega)]
    have : localNs - (oa * 1000000000 - ob * 1000000000) - ob * 1000000000 = localNs - oa * 1000000000 := by omega
    rw [this]; simp
  have hgap : gapOf localNs ob [(T, oa)] = some (ob, oa) := by
    unfold gapOf; rw [if_pos ⟨h1, h2⟩]
  refine ⟨e0, ?_, ?_, e1, e2, ?_, ?_, ?_⟩
  · show (⟨ob, [(T, oa)]⟩ : Zone).offsetAt _ * 1000000000 = _
    rw [lookup_single, if_neg (by unfold NS_PER_DAY; omega)]
  · show (⟨ob, [(T, oa)]⟩ : Zone).offsetAt _ * 1000000000 = _
    rw [lookup_single, if_pos (by unfold NS_PER_DAY; omega)]
  · simp [instant, e0, hgap, z]
  · simp [instant, e0, hgap, z]
  · simp [instant, e0, hgap, z]

/-! ### The offset option -/

/-- **C13 (Z and `use`).** A `Z` designator, or an explicit offset under `use`, denotes the exact instant: the
date-time shifted by the offset (0 for Z), whatever the zone and the disambiguation. -/
theorem C13_exact_offset (date : IsoDate) (t : IsoTime) (off : Int) (tz : TZ) (d : Disamb) (oo : OffsetOpt) :
    interpretOffset date (some t) true none tz d oo =
      (do TZ.validDayRange (IsoDateTime.balance date.year date.month date.day t.hour t.minute t.second t.millisecond
            t.microsecond (t.nanosecond - 0)).date
          (IsoDateTime.balance date.year date.month date.day t.hour t.minute t.second t.millisecond
            t.microsecond (t.nanosecond - 0)).asNanoseconds) ∧
    interpretOffset date (some t) false (some off) tz d .use =
      (do TZ.validDayRange (IsoDateTime.balance date.year date.month date.day t.hour t.minute t.second t.millisecond
            t.microsecond (t.nanosecond - off)).date
          (IsoDateTime.balance date.year date.month date.day t.hour t.minute t.second t.millisecond
            t.microsecond (t.nanosecond - off)).asNanoseconds) := by
  constructor <;> rfl

/-- **C13 (`ignore`, or no offset).** The offset is not consulted: the wall-clock reading is resolved in the zone. -/
theorem C13_ignore_offset (date : IsoDate) (t : IsoTime) (off : Option Int) (tz : TZ) (d : Disamb) :
    interpretOffset date (some t) false off tz d .ignore = tz.epochNsFor ⟨date, t⟩ d ∧
    (∀ oo, interpretOffset date (some t) false none tz d oo = tz.epochNsFor ⟨date, t⟩ d) := by
  constructor
  · cases off <;> rfl
  · intro oo; cases oo <;> rfl

/-- **C13 (`prefer` / `reject`).** Among the instants of the reading, the first whose offset equals the given one —
exactly, or after rounding to the minute — is returned; if none does, `reject` is a RangeError and `prefer` falls back
to the disambiguation option. -/
theorem C13_prefer_reject (date : IsoDate) (t : IsoTime) (off utc : Int) (tz : TZ) (d : Disamb) (possible : List Int)
    (hr : TZ.validDayRange date = .ok ()) (hu : (⟨date, t⟩ : IsoDateTime).asNanoseconds = .ok utc)
    (hp : tz.possibleFor ⟨date, t⟩ = .ok possible) :
    let hit := possible.find? (fun c => utc - c = off ∨ RoundI128.round (utc - c) 60000000000 .halfExpand = off)
    interpretOffset date (some t) false (some off) tz d .reject = (match hit with | some c => .ok c | none => .err .range) ∧
    interpretOffset date (some t) false (some off) tz d .prefer =
      (match hit with | some c => .ok c | none => tz.disambiguate possible ⟨date, t⟩ d) := by
  intro hit
  constructor
  · unfold interpretOffset
    simp only [Bool.false_eq_true, if_false, reduceCtorEq, or_true, true_or, if_true, hr, hu, hp, Out.bind_ok,
      Out.pure_eq_ok]
    cases hf : possible.find? (fun c => decide (utc - c = off ∨ RoundI128.round (utc - c) 60000000000 .halfExpand = off)) <;>
      simp [hit, hf]
  · unfold interpretOffset
    simp only [Bool.false_eq_true, if_false, reduceCtorEq, or_true, true_or, or_false, if_true, hr, hu, hp, Out.bind_ok,
      Out.pure_eq_ok]
    cases hf : possible.find? (fun c => decide (utc - c = off ∨ RoundI128.round (utc - c) 60000000000 .halfExpand = off)) <;>
      simp [hit, hf]

/-! Non-vacuity: the hypotheses of the gap theorem are met by a 24-hour gap (a skipped calendar day, offsets
    −10:00 → +14:00) and by a one-second gap; an overlap has two instants. -/
example : instant ⟨-36000, [(1325239200, 50400)]⟩ 1325203200000000000 .compatible = some 1325239200000000000 :=
  (C13_gap_any_size (-36000) 50400 1325239200 1325203200000000000 (by decide) (by decide) (by decide) (by decide)
    (by decide)).2.2.2.2.2.1
example : instant ⟨0, [(100, 1)]⟩ 100000000000 .earlier = some 99000000000 :=
  (C13_gap_any_size 0 1 100 100000000000 (by decide) (by decide) (by decide) (by decide) (by decide)).2.2.2.2.2.2.2
example : 1509859800000000000 ∈ (⟨-14400, [(1509861600, -18000)]⟩ : Zone).possible 1509845400000000000 ∧
    1509863400000000000 ∈ (⟨-14400, [(1509861600, -18000)]⟩ : Zone).possible 1509845400000000000 := by
  constructor <;> (rw [C13_possible_iff]; decide)

end TemporalModel

#print axioms TemporalModel.C13_possible_iff
#print axioms TemporalModel.C13_possible_sorted
#print axioms TemporalModel.C13_fixed_offset
#print axioms TemporalModel.C13_named_offset
#print axioms TemporalModel.C13_wall_exact
#print axioms TemporalModel.C13_disambiguate_matches
#print axioms TemporalModel.C13_spec_matches
#print axioms TemporalModel.C13_gap_any_size
#print axioms TemporalModel.C13_exact_offset
#print axioms TemporalModel.C13_ignore_offset
#print axioms TemporalModel.C13_prefer_reject
