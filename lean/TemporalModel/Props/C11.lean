/-
  Props/C11.lean — property C11: formatting is canonical and parsing the text gives the value back.
  Writers and the readers of their canonical output are in Model/Format.lean (lists of characters).
-/
import TemporalModel.Model.FormatOps
namespace TemporalModel
open Fmt

/-! ### Digits -/

theorem charVal_digitChar (n : Nat) : charVal (digitChar n) = n % 10 ∧ isDigit (digitChar n) = true := by
  unfold charVal digitChar isDigit
  have hk : n % 10 < 10 := Nat.mod_lt _ (by decide)
  generalize n % 10 = k at hk
  have : k = 0 ∨ k = 1 ∨ k = 2 ∨ k = 3 ∨ k = 4 ∨ k = 5 ∨ k = 6 ∨ k = 7 ∨ k = 8 ∨ k = 9 := by omega
  rcases this with rfl | rfl | rfl | rfl | rfl | rfl | rfl | rfl | rfl | rfl <;> decide

theorem readNat_append_one (l : List Char) (c : Char) : readNat (l ++ [c]) = readNat l * 10 + charVal c := by
  unfold readNat; rw [List.foldl_append]; rfl

/-- `w` digits of `n` have length `w`, are all digits, and read back as `n mod 10^w`. -/
theorem digits_spec (w n : Nat) :
    (digits n w).length = w ∧ (digits n w).all isDigit = true ∧ readNat (digits n w) = n % 10 ^ w := by
  induction w generalizing n with
  | zero => simp [digits, readNat, Nat.mod_one]
  | succ w ih =>
    obtain ⟨h1, h2, h3⟩ := ih (n / 10)
    obtain ⟨c1, c2⟩ := charVal_digitChar n
    refine ⟨by simp [digits, h1], by simp [digits, h2, c2], ?_⟩
    unfold digits
    rw [readNat_append_one, h3, c1, Nat.pow_succ]
    have := Nat.mod_mul_right_div_self n 10 (10 ^ w)
    have e : n % (10 ^ w * 10) = 10 * (n / 10 % 10 ^ w) + n % 10 := by
      rw [Nat.mul_comm (10 ^ w) 10, Nat.mod_mul]; omega
    omega

/-- **C11 (fixed-width fields).** A zero-padded field of width `w` reads back as the number, for every number that
fits. -/
theorem C11_digits_roundtrip (w n : Nat) (h : n < 10 ^ w) (rest : List Char) :
    takeDigits w (digits n w ++ rest) = some (n, rest) := by
  obtain ⟨h1, h2, h3⟩ := digits_spec w n
  unfold takeDigits
  have ht : (digits n w ++ rest).take w = digits n w := by rw [List.take_left' h1]
  have hd : (digits n w ++ rest).drop w = rest := by rw [List.drop_left' h1]
  rw [ht, hd, if_pos ⟨by simp [h1], h2⟩, h3, Nat.mod_eq_of_lt h]

/-! ### Years and dates -/

/-- **C11 (canonical year).** Four digits exactly for 0..9999, otherwise a sign and exactly six digits. -/
theorem C11_year_shape (y : Int) :
    (0 ≤ y ∧ y ≤ 9999 → (year y).length = 4 ∧ (year y).all isDigit = true) ∧
    (y < 0 → (year y).head? = some '-' ∧ (year y).length = 7) ∧
    (9999 < y → (year y).head? = some '+' ∧ (year y).length = 7) := by
  refine ⟨fun h => ?_, fun h => ?_, fun h => ?_⟩
  · unfold year; rw [if_pos h]; exact ⟨(digits_spec 4 _).1, (digits_spec 4 _).2.1⟩
  · unfold year; rw [if_neg (by omega), if_pos h]; simp [(digits_spec 6 _).1]
  · unfold year; rw [if_neg (by omega), if_neg (by omega)]; simp [(digits_spec 6 _).1]

/-- **C11 (year round trip).** Every year of at most six digits reads back, whatever follows. -/
theorem C11_year_roundtrip (y : Int) (h : (y.natAbs : Int) ≤ 999999) (rest : List Char) :
    readYear (year y ++ rest) = some (y, rest) := by
  unfold year
  by_cases h0 : 0 ≤ y ∧ y ≤ 9999
  · rw [if_pos h0]
    have hd := C11_digits_roundtrip 4 y.toNat (by omega) rest
    have hne : ∀ c cs, digits y.toNat 4 ++ rest = c :: cs → c ≠ '+' ∧ c ≠ '-' := by
      intro c cs hc
      have hall := (digits_spec 4 y.toNat).2.1
      have hl := (digits_spec 4 y.toNat).1
      match hdg : digits y.toNat 4 with
      | [] => simp [hdg] at hl
      | d :: ds =>
        rw [hdg] at hc hall
        simp only [List.cons_append, List.cons.injEq] at hc
        simp only [List.all_cons, Bool.and_eq_true] at hall
        rw [← hc.1]
        constructor <;> (intro hx; rw [hx] at hall; exact absurd hall.1 (by decide))
    unfold readYear
    split
    · rename_i r heq; exact absurd rfl (hne _ _ heq).1
    · rename_i r heq; exact absurd rfl (hne _ _ heq).2
    · rw [hd]; simp; omega
  · rw [if_neg h0]
    by_cases hn : y < 0
    · rw [if_pos hn]
      unfold readYear
      simp only [List.cons_append]
      rw [C11_digits_roundtrip 6 y.natAbs (by omega) rest]
      simp; omega
    · rw [if_neg hn]
      unfold readYear
      simp only [List.cons_append]
      rw [C11_digits_roundtrip 6 y.natAbs (by omega) rest]
      simp; omega

/-- **C11 (date round trip).** The text of every date with a year of at most six digits and two-digit month and
day reads back as the same date, whatever follows it (a time, an annotation, nothing). -/
theorem C11_date_roundtrip (d : IsoDate) (hy : (d.year.natAbs : Int) ≤ 999999)
    (hm : 0 ≤ d.month ∧ d.month ≤ 99) (hd : 0 ≤ d.day ∧ d.day ≤ 99) (rest : List Char) :
    readDate (date d ++ rest) = some (d, rest) := by
  unfold date readDate
  simp only [List.append_assoc]
  rw [C11_year_roundtrip d.year hy]
  simp only [Option.bind_eq_bind, Option.bind_some, List.cons_append, List.nil_append]
  rw [C11_digits_roundtrip 2 d.month.toNat (by omega)]
  simp only [Option.bind_some]
  rw [C11_digits_roundtrip 2 d.day.toNat (by omega)]
  simp only [Option.bind_some, Option.pure_def, Option.some.injEq, Prod.mk.injEq, and_true]
  cases d
  simp only [IsoDate.mk.injEq, true_and] at *
  omega

/-! ### Fractions of a second -/

theorem digits_succ (n w : Nat) : digits n (w + 1) = digits (n / 10) w ++ [digitChar n] := rfl

theorem digits_take (n a b : Nat) : (digits n (a + b)).take a = digits (n / 10 ^ b) a := by
  induction b generalizing n with
  | zero => simp [List.take_of_length_le, (digits_spec a n).1]
  | succ b ih =>
    have : a + (b + 1) = (a + b) + 1 := by omega
    rw [this, digits_succ]
    have hl := (digits_spec (a + b) (n / 10)).1
    rw [List.take_append_of_le_length (by omega), ih, Nat.div_div_eq_div_mul, Nat.pow_succ, Nat.mul_comm 10]

/-- **C11 (requested digits).** With `n ≤ 9` fractional digits requested, exactly `n` are written: the leading `n`
of the nine. -/
theorem C11_fraction_exact_digits (ns k : Nat) (hk : k ≤ 9) :
    (fraction ns (.digit k)).length = k ∧ fraction ns (.digit k) = digits (ns / 10 ^ (9 - k)) k := by
  unfold fraction
  simp only [hk, if_true]
  have e : 9 = k + (9 - k) := by omega
  constructor
  · rw [List.length_take, (digits_spec 9 ns).1]; omega
  · conv => lhs; rw [e]
    exact digits_take ns k (9 - k)

theorem sigDigits_spec (ns : Nat) (h : ns < 1000000000) :
    sigDigits ns ≤ 9 ∧ ns % 10 ^ (9 - sigDigits ns) = 0 ∧ (0 < ns → ns % 10 ^ (10 - sigDigits ns) ≠ 0) ∧
    (ns = 0 ↔ sigDigits ns = 0) := by
  by_cases c0 : ns % 1000000000 = 0
  · have e : sigDigits ns = 0 := by unfold sigDigits; rw [ if_pos c0]
    rw [e]; refine ⟨by omega, by simp only [Nat.reducePow, Nat.reduceSub]; omega, by simp only [Nat.reducePow, Nat.reduceSub]; omega, by omega⟩
  ·
    by_cases c1 : ns % 100000000 = 0
    · have e : sigDigits ns = 1 := by unfold sigDigits; rw [if_neg c0, if_pos c1]
      rw [e]; refine ⟨by omega, by simp only [Nat.reducePow, Nat.reduceSub]; omega, by simp only [Nat.reducePow, Nat.reduceSub]; omega, by omega⟩
    ·
      by_cases c2 : ns % 10000000 = 0
      · have e : sigDigits ns = 2 := by unfold sigDigits; rw [if_neg c0, if_neg c1, if_pos c2]
        rw [e]; refine ⟨by omega, by simp only [Nat.reducePow, Nat.reduceSub]; omega, by simp only [Nat.reducePow, Nat.reduceSub]; omega, by omega⟩
      ·
        by_cases c3 : ns % 1000000 = 0
        · have e : sigDigits ns = 3 := by unfold sigDigits; rw [if_neg c0, if_neg c1, if_neg c2, if_pos c3]
          rw [e]; refine ⟨by omega, by simp only [Nat.reducePow, Nat.reduceSub]; omega, by simp only [Nat.reducePow, Nat.reduceSub]; omega, by omega⟩
        ·
          by_cases c4 : ns % 100000 = 0
          · have e : sigDigits ns = 4 := by unfold sigDigits; rw [if_neg c0, if_neg c1, if_neg c2, if_neg c3, if_pos c4]
            rw [e]; refine ⟨by omega, by simp only [Nat.reducePow, Nat.reduceSub]; omega, by simp only [Nat.reducePow, Nat.reduceSub]; omega, by omega⟩
          ·
            by_cases c5 : ns % 10000 = 0
            · have e : sigDigits ns = 5 := by unfold sigDigits; rw [if_neg c0, if_neg c1, if_neg c2, if_neg c3, if_neg c4, if_pos c5]
              rw [e]; refine ⟨by omega, by simp only [Nat.reducePow, Nat.reduceSub]; omega, by simp only [Nat.reducePow, Nat.reduceSub]; omega, by omega⟩
            ·
              by_cases c6 : ns % 1000 = 0
              · have e : sigDigits ns = 6 := by unfold sigDigits; rw [if_neg c0, if_neg c1, if_neg c2, if_neg c3, if_neg c4, if_neg c5, if_pos c6]
                rw [e]; refine ⟨by omega, by simp only [Nat.reducePow, Nat.reduceSub]; omega, by simp only [Nat.reducePow, Nat.reduceSub]; omega, by omega⟩
              ·
                by_cases c7 : ns % 100 = 0
                · have e : sigDigits ns = 7 := by unfold sigDigits; rw [if_neg c0, if_neg c1, if_neg c2, if_neg c3, if_neg c4, if_neg c5, if_neg c6, if_pos c7]
                  rw [e]; refine ⟨by omega, by simp only [Nat.reducePow, Nat.reduceSub]; omega, by simp only [Nat.reducePow, Nat.reduceSub]; omega, by omega⟩
                ·
                  by_cases c8 : ns % 10 = 0
                  · have e : sigDigits ns = 8 := by unfold sigDigits; rw [if_neg c0, if_neg c1, if_neg c2, if_neg c3, if_neg c4, if_neg c5, if_neg c6, if_neg c7, if_pos c8]
                    rw [e]; refine ⟨by omega, by simp only [Nat.reducePow, Nat.reduceSub]; omega, by simp only [Nat.reducePow, Nat.reduceSub]; omega, by omega⟩
                  · have e : sigDigits ns = 9 := by unfold sigDigits; rw [if_neg c0, if_neg c1, if_neg c2, if_neg c3, if_neg c4, if_neg c5, if_neg c6, if_neg c7, if_neg c8]
                    rw [e]; refine ⟨by omega, by simp only [Nat.reducePow, Nat.reduceSub]; omega, by simp only [Nat.reducePow, Nat.reduceSub]; omega, by omega⟩

/-- **C11 (minimal digits).** Under auto precision the fraction has no trailing zero and loses nothing: the number of
digits `k` satisfies `ns = (value read) · 10^(9−k)`, and `k` is the least such. -/
theorem C11_fraction_minimal (ns : Nat) (h : ns < 1000000000) :
    let k := sigDigits ns
    k ≤ 9 ∧ readNat (fraction ns .auto) * 10 ^ (9 - k) = ns ∧ (0 < ns → ns % 10 ^ (10 - k) ≠ 0) ∧ (ns = 0 ↔ k = 0) := by
  intro k
  obtain ⟨hk, hd1, hd2, hd3⟩ := sigDigits_spec ns h
  have hk : k ≤ 9 := hk
  have hfr : fraction ns .auto = digits (ns / 10 ^ (9 - k)) k := by
    unfold fraction
    show (digits ns 9).take k = _
    have e : 9 = k + (9 - k) := by omega
    conv => lhs; rw [e]
    exact digits_take ns k (9 - k)
  have hdiv : ns % 10 ^ (9 - k) = 0 ∧ (0 < ns → ns % 10 ^ (10 - k) ≠ 0) ∧ (ns = 0 ↔ k = 0) := ⟨hd1, hd2, hd3⟩
  refine ⟨hk, ?_, hdiv.2.1, hdiv.2.2⟩
  rw [hfr, (digits_spec k _).2.2]
  have hlt : ns / 10 ^ (9 - k) < 10 ^ k := by
    rw [Nat.div_lt_iff_lt_mul (Nat.pow_pos (by decide))]
    rw [← Nat.pow_add]
    have : k + (9 - k) = 9 := by omega
    rw [this]; exact h
  rw [Nat.mod_eq_of_lt hlt]
  exact Nat.div_mul_cancel (Nat.dvd_of_mod_eq_zero hdiv.1)

/-! ### Offsets and annotations -/

/-- **C11 (offsets).** A UTC offset is written as a sign, two digits, a colon, two digits. -/
theorem C11_offset_shape (m : Int) :
    (offsetMinutes m).length = 6 ∧ (offsetMinutes m).head? = some (if m < 0 then '-' else '+') ∧
    (offsetMinutes m)[3]? = some ':' := by
  unfold offsetMinutes
  have h1 := (digits_spec 2 (m.natAbs / 60)).1
  have h2 := (digits_spec 2 (m.natAbs % 60)).1
  refine ⟨by simp [h1, h2], by simp, ?_⟩
  match hd : digits (m.natAbs / 60) 2, h1 with
  | [a, b], _ => simp

/-- **C11 (annotation order).** In every writer the calendar annotation is the last component, after any time zone
annotation. -/
theorem C11_calendar_last (d : IsoDate) (dt : IsoDateTime) (p : Precision) (cal : String) (s : ShowCal) :
    (∃ pre, plainDate d cal s = pre ++ calendar cal s) ∧
    (∃ pre, plainDateTime dt p cal s = pre ++ calendar cal s) ∧
    (∃ pre, yearMonth d cal s = pre ++ calendar cal s) ∧ (∃ pre, monthDay d cal s = pre ++ calendar cal s) :=
  ⟨⟨_, rfl⟩, ⟨_, rfl⟩, ⟨_, rfl⟩, ⟨_, rfl⟩⟩

/-- The calendar annotation is omitted exactly for `never`, and for `auto` with the ISO calendar; `critical` adds
the `!` flag. -/
theorem C11_calendar_shown (cal : String) :
    calendar cal .never = [] ∧ calendar "iso8601" .auto = [] ∧
    calendar cal .always = "[u-ca=".toList ++ cal.toList ++ [']'] ∧
    calendar cal .critical = "[!u-ca=".toList ++ cal.toList ++ [']'] := by
  refine ⟨by simp [calendar], by simp [calendar], by simp [calendar], by simp [calendar]⟩

/-! Non-vacuity / concrete texts (kernel-evaluated). -/
example : String.ofList (date ⟨-271821, 4, 19⟩) = "-271821-04-19" := by decide
example : String.ofList (date ⟨9999, 12, 31⟩) = "9999-12-31" ∧ String.ofList (date ⟨10000, 1, 1⟩) = "+010000-01-01" := by decide
example : String.ofList (time ⟨1, 2, 3, 120, 0, 0⟩ .auto) = "01:02:03.12" := by decide
example : String.ofList (time ⟨1, 2, 3, 120, 0, 0⟩ (.digit 5)) = "01:02:03.12000" := by decide
example : String.ofList (offsetMinutes (-330)) = "-05:30" := by decide

end TemporalModel

#print axioms TemporalModel.C11_digits_roundtrip
#print axioms TemporalModel.C11_year_shape
#print axioms TemporalModel.C11_year_roundtrip
#print axioms TemporalModel.C11_date_roundtrip
#print axioms TemporalModel.C11_fraction_exact_digits
#print axioms TemporalModel.C11_fraction_minimal
#print axioms TemporalModel.C11_offset_shape
#print axioms TemporalModel.C11_calendar_last
#print axioms TemporalModel.C11_calendar_shown
