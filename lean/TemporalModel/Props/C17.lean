/-
  Props/C17.lean — property C17: with / from_partial use only supplied fields; constrain clamps, reject errors.
-/
import TemporalModel.Spec.Merge
import TemporalModel.Lemmas.MergeLemmas
import TemporalModel.Lemmas.DateLemmas
import TemporalModel.Lemmas.TimeLemmas
namespace TemporalModel
open Greg

/-- **PlainTime::with = reference merge**, for every receiver, every subset of fields, every field value, both modes. -/
theorem C17_time_with_spec (t : IsoTime) (p : PartialTime) (ov : Overflow) :
    plainTimeWith t p (some ov) = mergeTimeSpec t p ov := by
  unfold plainTimeWith mergeTimeSpec isoTimeWith isoTimeNew
  cases hp : p.isEmpty
  · simp only [Bool.false_eq_true, if_false, Option.getD_some]
    cases ov with
    | constrain => rfl
    | reject =>
      simp only []
      by_cases hv : IsoTime.isValid ⟨p.hour.getD t.hour, p.minute.getD t.minute, p.second.getD t.second,
          p.millisecond.getD t.millisecond, p.microsecond.getD t.microsecond, p.nanosecond.getD t.nanosecond⟩ = true
      · rw [if_pos hv, if_pos ((isValid_iff _).mp hv)]
      · rw [if_neg hv, if_neg (fun h => hv ((isValid_iff _).mpr h))]
  · simp only [if_true]

/-- Applying a time's own fields to itself is the identity. -/
theorem C17_time_with_self (t : IsoTime) (ov : Overflow) (ht : t.isValid = true) :
    plainTimeWith t ⟨some t.hour, some t.minute, some t.second, some t.millisecond, some t.microsecond,
      some t.nanosecond⟩ (some ov) = .ok t := by
  rw [C17_time_with_spec]
  rw [isValid_iff] at ht
  unfold mergeTimeSpec
  simp only [PartialTime.isEmpty, Option.isNone_some, Bool.and_self, Bool.false_eq_true, if_false, Option.getD_some]
  cases ov with
  | constrain =>
    simp only []
    have e : ∀ x lo hi : Int, lo ≤ x → x ≤ hi → clamp x lo hi = x := by
      intro x lo hi h1 h2; unfold clamp; split <;> (try split) <;> omega
    rw [e _ _ _ ht.1 ht.2.1, e _ _ _ ht.2.2.1 ht.2.2.2.1, e _ _ _ ht.2.2.2.2.1 ht.2.2.2.2.2.1,
      e _ _ _ ht.2.2.2.2.2.2.1 ht.2.2.2.2.2.2.2.1, e _ _ _ ht.2.2.2.2.2.2.2.2.1 ht.2.2.2.2.2.2.2.2.2.1,
      e _ _ _ ht.2.2.2.2.2.2.2.2.2.2.1 ht.2.2.2.2.2.2.2.2.2.2.2]
  | reject => simp only []; rw [if_pos ht]

/-- An empty record is a TypeError for every type. -/
theorem C17_empty_is_type (r : IsoDate) (t : IsoTime) (ov : Option Overflow) :
    plainDateWith r ⟨none, none, none, none, false, none⟩ ov = .err .type ∧
    plainTimeWith t ⟨none, none, none, none, none, none⟩ ov = .err .type ∧
    plainTimeFromPartial ⟨none, none, none, none, none, none⟩ ov = .err .type ∧
    plainDateTimeWith ⟨r, t⟩ ⟨none, none, none, none, false, none⟩ ⟨none, none, none, none, none, none⟩ ov = .err .type ∧
    plainDateFromPartial ⟨none, none, none, none, false, none⟩ ov = .err .type := by
  refine ⟨rfl, rfl, rfl, rfl, rfl⟩

/-- from_partial requires year (or era + era year), month (or month code) and day: otherwise TypeError. -/
theorem C17_missing_is_type (p : PartialDate) (ov : Option Overflow)
    (h : (p.year = none ∧ ¬ (p.era = true ∧ p.eraYear.isSome)) ∨ (p.month = none ∧ p.monthCode = none) ∨ p.day = none) :
    plainDateFromPartial p ov = .err .type := by
  unfold plainDateFromPartial
  rw [if_pos]
  rcases h with ⟨h1, h2⟩ | ⟨h1, h2⟩ | h1
  · simp only [h1, Option.isSome_none, Bool.false_or]
    cases he : p.era <;> cases hy : p.eraYear <;> simp_all
  · simp [h1, h2]
  · simp [h1]

/-- **`PlainDate::with` = the reference merge**, for every receiver, every subset of supplied fields (all 2^k),
    every field value, both overflow modes. -/
theorem C17_date_with_spec (r : IsoDate) (p : PartialDate) (ov : Overflow) (hr : 1 ≤ r.month ∧ r.month ≤ 12) :
    plainDateWith r p (some ov) = mergeDateSpec r p ov := by
  unfold plainDateWith mergeDateSpec
  cases hp : p.isEmpty
  case true => rfl
  simp only [Bool.false_eq_true, if_false, Option.getD_some]
  obtain ⟨mm, cc, hwf⟩ := withFallback_ok p r.year r.month r.day hr
  have hmr := month_resolution r.year r.month r.day true p ov hr
  rw [hwf] at hmr ⊢
  simp only [Out.bind_ok] at hmr ⊢
  unfold dateFromPartial resolvedFieldsIso
  by_cases h1 : p.era = true ∧ p.eraYear.isSome = true ∧ p.year.isNone = true
  · rw [if_pos h1]
    have : eraYearIso ⟨(if p.year.isSome ∨ p.era ∨ p.eraYear.isSome then p.year else some r.year), mm, cc,
        some (p.day.getD r.day), p.era, p.eraYear⟩ = .err .range := by
      unfold eraYearIso
      obtain ⟨a, b, c⟩ := h1
      cases hy : p.year <;> cases he : p.eraYear <;> simp_all
    rw [this]; rfl
  · rw [if_neg h1]
    by_cases hera : p.era = true ∨ p.eraYear.isSome = true
    · rw [if_pos hera]
      have : eraYearIso ⟨(if p.year.isSome ∨ p.era ∨ p.eraYear.isSome then p.year else some r.year), mm, cc,
          some (p.day.getD r.day), p.era, p.eraYear⟩ = .err .type := by
        unfold eraYearIso
        cases hy : p.year <;> cases he : p.era <;> cases hey : p.eraYear <;> simp_all
      rw [this]; rfl
    · rw [if_neg hera]
      have he : p.era = false ∧ p.eraYear = none := by
        cases h1 : p.era <;> cases h2 : p.eraYear <;> simp_all
      have hY : (if p.year.isSome ∨ p.era ∨ p.eraYear.isSome then p.year else some r.year) =
          some (p.year.getD r.year) := by
        cases hy : p.year <;> simp [he.1, he.2]
      rw [hY] at hmr ⊢
      have : eraYearIso ⟨some (p.year.getD r.year), mm, cc, some (p.day.getD r.day), p.era, p.eraYear⟩ =
          .ok (p.year.getD r.year) := by unfold eraYearIso; simp [he.1, he.2]
      rw [this]
      simp only [Out.bind_ok]
      cases hres : resolveIsoMonth ⟨some (p.year.getD r.year), mm, cc, some (p.day.getD r.day), p.era, p.eraYear⟩ ov with
      | err k => rw [hres] at hmr; simp only [Out.bind_err] at hmr; rw [← hmr]; rfl
      | panic => rw [hres] at hmr; simp only [Out.bind_panic] at hmr; rw [← hmr]; rfl
      | ok c =>
        rw [hres] at hmr
        simp only [Out.bind_ok, Out.pure_eq_ok] at hmr
        rw [← hmr]
        have hc := resolveIsoMonth_valid _ _ _ hres
        simp only [Out.bind_ok, resolveDay, Bool.false_eq_true, if_false, reduceCtorEq, decide_false]
        have := day_then_new (p.year.getD r.year) (c.num : Int) (p.day.getD r.day) ov hc
        rw [← this]
        generalize (if ov = Overflow.constrain then constrainIsoDay (p.year.getD r.year) (↑c.num) (p.day.getD r.day)
            else do
              let dim ← isoDaysInMonth (p.year.getD r.year) ↑c.num
              if 1 ≤ p.day.getD r.day ∧ p.day.getD r.day ≤ dim then pure (p.day.getD r.day) else Out.err ErrKind.range) = X
        cases X <;> rfl

/-- The year is never changed unless supplied; month and day follow the spec's rules on the *resulting* year
    and month (so an unsupplied day changes only when clamping forces it). -/
theorem C17_year_untouched (r x : IsoDate) (p : PartialDate) (ov : Overflow) (hr : 1 ≤ r.month ∧ r.month ≤ 12)
    (h : plainDateWith r p (some ov) = .ok x) : x.year = p.year.getD r.year := by
  rw [C17_date_with_spec r p ov hr] at h
  unfold mergeDateSpec at h
  split at h
  · cases h
  · split at h
    · cases h
    · split at h
      · cases h
      · simp only at h
        cases h1 : mergeMonthSpec r.month p.month p.monthCode ov <;>
          simp only [h1, Out.bind_ok, Out.bind_err, Out.bind_panic] at h <;> (try cases h)
        rename_i m
        cases h2 : mergeDaySpec (p.year.getD r.year) m (p.day.getD r.day) ov <;>
          simp only [h2, Out.bind_ok, Out.bind_err, Out.bind_panic] at h <;> (try cases h)
        rename_i d
        unfold IsoDate.newWithOverflow at h
        cases ov with
        | constrain =>
          rw [regulate_constrain] at h
          simp only [Out.bind_ok] at h
          split at h
          · cases h; rfl
          · cases h
        | reject =>
          rw [regulate_reject] at h
          split at h
          · simp only [Out.bind_ok] at h
            split at h
            · cases h; rfl
            · cases h
          · cases h

/-- **Applying a date's own fields to itself is the identity** (both modes). -/
theorem C17_date_with_self (r : IsoDate) (ov : Overflow) (hr : InRange r) :
    plainDateWith r ⟨some r.year, some r.month, some ⟨r.month.toNat, false⟩, some r.day, false, none⟩ (some ov) = .ok r := by
  obtain ⟨⟨hm1, hm12, hd1, hdm⟩, hlo, hhi⟩ := hr
  rw [C17_date_with_spec r _ ov ⟨hm1, hm12⟩]
  unfold mergeDateSpec mergeMonthSpec mergeDaySpec
  have hnat : ((r.month.toNat : Nat) : Int) = r.month := by omega
  have hn2 : 1 ≤ r.month.toNat ∧ r.month.toNat ≤ 12 := by omega
  simp only [PartialDate.isEmpty, Option.isNone_some, Bool.false_and, Bool.false_eq_true, if_false, Option.getD_some,
    Option.isSome_none, or_self, hnat, ne_eq, not_true_eq_false, hn2, and_self, or_false, Out.bind_ok]
  have hir : InRange r := ⟨⟨hm1, hm12, hd1, hdm⟩, hlo, hhi⟩
  cases ov with
  | constrain =>
    have e : clamp r.day 1 (dim r.year r.month) = r.day := by unfold clamp; split <;> (try split) <;> omega
    simp only [e, Out.bind_ok]
    exact newWithOverflow_of_inRange r .constrain hir
  | reject =>
    simp only [hd1, hdm, and_self, if_true, Out.bind_ok]
    exact newWithOverflow_of_inRange r .reject hir

/-! Witnesses (kernel-decided): the once-failing `with({month: 14}, constrain)` now clamps. -/
example : plainDateWith ⟨2021, 6, 30⟩ ⟨none, some 14, none, none, false, none⟩ (some .constrain) = .ok ⟨2021, 12, 30⟩ := by decide
example : plainDateWith ⟨2021, 6, 30⟩ ⟨none, some 14, none, none, false, none⟩ (some .reject) = .err .range := by decide
example : plainDateWith ⟨2021, 6, 30⟩ ⟨none, some 2, none, none, false, none⟩ (some .constrain) = .ok ⟨2021, 2, 28⟩ := by decide
example : plainDateWith ⟨2021, 6, 30⟩ ⟨none, some 11, some ⟨12, false⟩, none, false, none⟩ (some .constrain) = .err .range := by decide

end TemporalModel

#print axioms TemporalModel.C17_time_with_spec
#print axioms TemporalModel.C17_time_with_self
#print axioms TemporalModel.C17_empty_is_type
#print axioms TemporalModel.C17_missing_is_type
#print axioms TemporalModel.C17_date_with_spec
#print axioms TemporalModel.C17_year_untouched
#print axioms TemporalModel.C17_date_with_self
