/-
  Props/C20.lean — property C20: the shared provider is thread-safe and survives failed calls.
-/
import TemporalModel.Model.Shared
import TemporalModel.Props.C15
namespace TemporalModel

theorem lookupAll_spec (read : String → Option RawZone) (c : ZoneCache) (hc : ZoneCache.Coherent read c) (ids : List String) :
    (lookupAll read c ids).1 = ids.map read ∧ ZoneCache.Coherent read (lookupAll read c ids).2 := by
  induction ids generalizing c with
  | nil => exact ⟨rfl, hc⟩
  | cons id rest ih =>
    obtain ⟨h1, h2⟩ := cacheGet_spec read c id hc
    obtain ⟨i1, i2⟩ := ih _ h2
    unfold lookupAll
    simp only [List.map_cons]
    exact ⟨by rw [h1, i1], i2⟩

/-- **C20 (every call answers as if alone).** Whatever calls ran before — other threads' calls, in any order, with
any zones cold or warm in the cache, including calls that failed or panicked while holding the lock — each call
observes exactly what it would observe alone on a fresh provider. -/
theorem C20_history_independent (read : String → Option RawZone) (s : Shared) (hs : ZoneCache.Coherent read s.cache)
    (h : List Call) : runShared (stepRecover read) s h = h.map (alone read) := by
  induction h generalizing s with
  | nil => rfl
  | cons c rest ih =>
    obtain ⟨l1, l2⟩ := lookupAll_spec read s.cache hs c.zones
    have hstep : (stepRecover read s c).2 = alone read c ∧ ZoneCache.Coherent read (stepRecover read s c).1.cache := by
      unfold stepRecover alone
      cases hp : c.panics <;> simp [l1] <;> exact l2
    simp only [runShared, List.map_cons, hstep.1]
    rw [ih _ hstep.2]

/-- **C20 (interleavings).** Two interleavings of the same per-thread call sequences give every thread the same
sequence of observations: results do not depend on how concurrent calls interleave. -/
theorem C20_interleaving_independent (read : String → Option RawZone) (s : Shared) (hs : ZoneCache.Coherent read s.cache)
    (h1 h2 : List Call) (k : Nat) (hk : h1.filter (fun c => c.thread = k) = h2.filter (fun c => c.thread = k)) :
    ((h1.zip (runShared (stepRecover read) s h1)).filter (fun p => p.1.thread = k)).map (·.2) =
    ((h2.zip (runShared (stepRecover read) s h2)).filter (fun p => p.1.thread = k)).map (·.2) := by
  rw [C20_history_independent read s hs h1, C20_history_independent read s hs h2]
  have key : ∀ h : List Call, ((h.zip (h.map (alone read))).filter (fun p => p.1.thread = k)).map (·.2) =
      (h.filter (fun c => c.thread = k)).map (alone read) := by
    intro h
    induction h with
    | nil => rfl
    | cons c rest ih =>
      simp only [List.map_cons, List.zip_cons_cons, List.filter_cons]
      by_cases hc : c.thread = k <;> simp [hc, ih]
  rw [key h1, key h2, hk]

/-- **C20 (no deadlock).** Every call takes the single lock once and releases it when it returns or unwinds: a call
always completes in one step from any state, so any history runs to its end. -/
theorem C20_progress (read : String → Option RawZone) (s : Shared) (h : List Call) :
    (runShared (stepRecover read) s h).length = h.length := by
  induction h generalizing s with
  | nil => rfl
  | cons c rest ih => simp [runShared, ih]

/-- **C20 (a failed call does not disable the provider).** After a call that panicked while holding the lock, the next
call is answered as if alone. -/
theorem C20_survives_panic (read : String → Option RawZone) (s : Shared) (hs : ZoneCache.Coherent read s.cache)
    (bad good : Call) (hb : bad.panics = true) (hg : good.panics = false) :
    runShared (stepRecover read) s [bad, good] = [.panicked, .answered (good.zones.map read)] := by
  rw [C20_history_independent read s hs]
  simp [alone, hb, hg]

/-- The behaviour before the fix, for the record: with a strict (poisoning) lock the call after a panic fails. -/
theorem C20_strict_lock_fails_after_panic (read : String → Option RawZone) (bad good : Call) (hb : bad.panics = true) :
    ∃ o, runShared (stepStrict read) ⟨[], false⟩ [bad, good] = [.panicked, o] ∧ o = .lockFailed := by
  refine ⟨.lockFailed, ?_, rfl⟩
  simp [runShared, stepStrict, stepRecover, hb]

end TemporalModel

#print axioms TemporalModel.C20_history_independent
#print axioms TemporalModel.C20_interleaving_independent
#print axioms TemporalModel.C20_progress
#print axioms TemporalModel.C20_survives_panic
#print axioms TemporalModel.C20_strict_lock_fails_after_panic
