/-
  Props/C04.lean — property C04: PlainDate add/subtract/until/since follow Temporal date arithmetic exactly.
  `InRange d` = `d` is an existing calendar day inside Temporal's limits (what every constructor guarantees,
  theorem `newWithOverflow_inRange`).
-/
import TemporalModel.Lemmas.DateLemmas
import TemporalModel.Lemmas.DurationLemmas
namespace TemporalModel
open NS Greg

/-- Every successfully constructed date is a valid day in range, and valid in-range dates are accepted as is. -/
theorem C04_constructor (y m d : Int) (ov : Overflow) (c : IsoDate) :
    (IsoDate.newWithOverflow y m d ov = .ok c → InRange c) ∧
    (InRange c → IsoDate.newWithOverflow c.year c.month c.day ov = .ok c) :=
  ⟨newWithOverflow_inRange y m d ov c, newWithOverflow_of_inRange c ov⟩

/-- **AddISODate = Temporal's algorithm**: years and months first (year/month balanced, the day constrained or
    rejected per the overflow option, the intermediate date required to be in range), then weeks and days; every
    failure is a RangeError. Holds for all `i32`-sized duration fields (larger ones are RangeErrors). -/
theorem C04_add_spec (a : IsoDate) (ys ms ws ds : Int) (ov : Overflow)
    (h1 : (ys.natAbs : Int) < 2147483648) (h2 : (ms.natAbs : Int) < 2147483648)
    (h3 : (ws.natAbs : Int) < 2147483648) (h4 : (ds.natAbs : Int) < 2147483648) (ha : InRange a) :
    a.addDateDuration ys ms ws ds ov =
      (match IsoDate.newWithOverflow (balanceIsoYearMonth (a.year + ys) (a.month + ms)).1
              (balanceIsoYearMonth (a.year + ys) (a.month + ms)).2 a.day ov with
       | .ok inter =>
         if ((ds + ws * 7).natAbs : Int) > 2 * MAX_EPOCH_DAYS then .err .range
         else .ok (IsoDate.balance inter.year inter.month (inter.day + (ds + ws * 7)))
       | .err k => .err k
       | .panic => .panic) :=
  addDateDuration_spec a ys ms ws ds ov h1 h2 h3 h4 (inRange_year a ha) ⟨ha.1.1, ha.1.2.1⟩

/-- The weeks/days step moves exactly `7·weeks + days` along the day line. -/
theorem C04_add_on_timeline (c : IsoDate) (k : Int) (hc : InRange c) (hk : (k.natAbs : Int) ≤ 2 * MAX_EPOCH_DAYS) :
    ∃ r : IsoDate, IsoDate.balance c.year c.month (c.day + k) = r ∧ Valid r.year r.month r.day ∧
      dayNumber r.year r.month r.day = dayNumber c.year c.month c.day + k :=
  balance_from_inRange c k hc hk

/-- Out-of-`i32` duration fields are RangeErrors (never a wrapped value). -/
theorem C04_add_huge_fields (a : IsoDate) (ys ms ws ds : Int) (ov : Overflow)
    (h : ¬ (-2147483648 ≤ ys ∧ ys ≤ 2147483647)) : a.addDateDuration ys ms ws ds ov = .err .range := by
  unfold IsoDate.addDateDuration asDateValue; rw [if_neg h]; rfl

/-- **until with largestUnit = day is the timeline distance.** -/
theorem C04_until_day (a b : IsoDate) (ha : InRange a) (hb : InRange b) (hne : a ≠ b) :
    plainDateInternalDiff a b .day =
      .ok ⟨0, 0, 0, dayNumber b.year b.month b.day - dayNumber a.year a.month a.day, 0, 0, 0, 0, 0, 0⟩ := by
  have hay := inRange_year a ha
  have hby := inRange_year b hb
  have ta : a.toEpochDays = dayNumber a.year a.month a.day :=
    C01_toDays _ _ _ (by unfold InWin; omega) ha.1.1 ha.1.2.1
  have tb : b.toEpochDays = dayNumber b.year b.month b.day :=
    C01_toDays _ _ _ (by unfold InWin; omega) hb.1.1 hb.1.2.1
  unfold plainDateInternalDiff
  rw [if_neg hne, if_pos rfl, ta, tb]
  unfold Dur.new
  rw [if_pos]
  apply (valid_iff _).mpr
  have := ha.2; have := hb.2
  refine ⟨?_, by show (0:Int).natAbs < 4294967296; decide, by show (0:Int).natAbs < 4294967296; decide,
    by show (0:Int).natAbs < 4294967296; decide, ?_⟩
  · unfold Dur.signUniform
    simp only [Dur.fields, List.mem_cons, List.mem_nil_iff, or_false, forall_eq_or_imp, forall_eq]
    omega
  · simp only [Dur.totalNs, Dur.timeNs]; omega

/-- **The inverse law** `start.add(start.until(end, U)) = end`, for every largest unit `U`. -/
theorem C04_add_until (a b : IsoDate) (U : TUnit) (D : Dur) (ha : InRange a) (hb : InRange b)
    (h : a.diffIsoDate b U = .ok D) :
    a.addDateDuration D.years D.months D.weeks D.days .constrain = .ok b :=
  diff_add_inverse a b U D ha hb h

/-- `since` is the negation of `until` computed with the mirrored rounding mode; `subtract(d) = add(−d)`. -/
theorem C04_since_subtract (a b : IsoDate) (raw : RawOptions) (d : Dur) (ov : Overflow) :
    plainDateSubtract a d ov = plainDateAdd a d.negated ov ∧
    (∀ o, fromDiffSettings raw true .date .day .day = .ok o →
      ∃ o', fromDiffSettings raw false .date .day .day = .ok o' ∧ o.mode = o'.mode.negate ∧
        o.largest = o'.largest ∧ o.smallest = o'.smallest ∧ o.increment = o'.increment) := by
  refine ⟨rfl, ?_⟩
  intro o ho
  unfold fromDiffSettings at *
  simp only [Bool.true_eq_false, if_false, if_true] at *
  cases h1 : UnitGroup.date.validateUnit raw.largest (some .auto) <;> simp only [h1, Out.bind_ok, Out.bind_err, Out.bind_panic] at ho ⊢ <;> (try cases ho)
  cases h2 : UnitGroup.date.validateUnit raw.smallest none <;> simp only [h2, Out.bind_ok, Out.bind_err, Out.bind_panic] at ho ⊢ <;> (try cases ho)
  split at ho
  · cases ho
  · rename_i hlt
    rw [if_neg hlt]
    cases h3 : checkIncrement (raw.smallest.getD .day) (raw.increment.getD 1) <;> simp only [h3, Out.bind_ok, Out.bind_err, Out.bind_panic] at ho ⊢ <;> (try cases ho)
    exact ⟨_, rfl, rfl, rfl, rfl, rfl⟩

/-! Witnesses (kernel-decided). -/
example : (⟨2024, 1, 31⟩ : IsoDate).addDateDuration 0 1 0 0 .constrain = .ok ⟨2024, 2, 29⟩ := by decide
example : (⟨2024, 1, 31⟩ : IsoDate).addDateDuration 0 1 0 0 .reject = .err .range := by decide
example : (⟨2021, 1, 31⟩ : IsoDate).addDateDuration 0 1 0 2 .constrain = .ok ⟨2021, 3, 2⟩ := by decide
example : (⟨2024, 1, 31⟩ : IsoDate).diffIsoDate ⟨2024, 3, 30⟩ .month = .ok ⟨0, 1, 0, 30, 0, 0, 0, 0, 0, 0⟩ := by decide
example : (⟨2024, 1, 31⟩ : IsoDate).addDateDuration 0 0 0 2147483647 .constrain = .err .range := by decide

end TemporalModel

#print axioms TemporalModel.C04_constructor
#print axioms TemporalModel.C04_add_spec
#print axioms TemporalModel.C04_add_on_timeline
#print axioms TemporalModel.C04_add_huge_fields
#print axioms TemporalModel.C04_until_day
#print axioms TemporalModel.C04_add_until
#print axioms TemporalModel.C04_since_subtract
