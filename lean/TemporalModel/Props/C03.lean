/-
  Props/C03.lean — property C03: no public operation panics or reports an internal assertion failure.

  `Out.Safe o` says the outcome `o` is a value or a Type/Range/Syntax/generic error.  Every modelled public operation
  is proved `Safe` for **all** arguments (receivers need only carry a month in 1..12, which every constructed value
  does).  The model marks every panic site of the code (`unreachable!`, `assert!`, `temporal_assert!`, unchecked
  `unwrap`, unbounded `loop`) with an explicit `.panic` / `.err .assert`; the theorems show none of them is reachable.
  The correspondence check then ties the code to the model (a panicking implementation differs from a model that
  provably never panics), and a surface sweep covers the functions that are not modelled.
-/
import TemporalModel.Lemmas.SafeLemmas
namespace TemporalModel

/-- `Safe` is exactly "not a panic and not an assertion error". -/
theorem C03_safe_meaning {α} (o : Out α) : o.Safe ↔ o ≠ .panic ∧ o ≠ .err .assert := Out.safe_iff o

/-- **Termination.** The two unbounded search loops of `diff_iso_date` finish within 3 and 13 iterations for every
pair of dates (the model's fuel 8 / 16 is never exhausted). -/
theorem C03_diff_loops_terminate (a b : IsoDate) (ha : MonthOk a) (hb : MonthOk b) (hne : a.cmp b ≠ 0) :
    ∃ years months,
      yearLoop a b (-(a.cmp b)) 8 0
        (if b.year - a.year ≠ 0 then b.year - a.year - -(a.cmp b) else b.year - a.year) = some years ∧
      monthLoop a b (-(a.cmp b)) 16 0 (-(a.cmp b))
        (balanceIsoYearMonth (a.year + years) (a.month + -(a.cmp b))) = some months :=
  diffIsoDate_loops_terminate a b ha hb hne

/-- The two `unreachable!`/`assert!` sites of utils.rs cannot be reached. -/
theorem C03_utils_sites (y m : Int) (hm : 1 ≤ m ∧ m ≤ 12) :
    (mathematicalDaysInYear y).Safe ∧ (isoDaysInMonth y m).Safe :=
  ⟨mathematicalDaysInYear_safe y, isoDaysInMonth_safe y m hm⟩

/-- **Constructors and option resolvers** — any integers, any options. -/
theorem C03_constructors (y m d h mi s ms us ns : Int) (ov : Overflow) (rd ry : Option Int) (du : Dur) :
    (plainDateTryNew y m d).Safe ∧ (IsoDate.newWithOverflow y m d ov).Safe ∧ (plainTimeTryNew h mi s ms us ns).Safe ∧
    (plainDateTimeTryNew y m d h mi s ms us ns).Safe ∧ (instantTryNew ns).Safe ∧ (instantFromEpochMs ms).Safe ∧
    (Dur.new du).Safe ∧ (yearMonthNew y m rd ov).Safe ∧ (monthDayNew m d ov ry).Safe ∧
    (IsoDateTime.fromEpochNanos ns us).Safe :=
  ⟨plainDateTryNew_safe .., newWithOverflow_safe .., plainTimeTryNew_safe .., plainDateTimeTryNew_safe ..,
   instantTryNew_safe _, instantFromEpochMs_safe _, Dur.new_safe _, yearMonthNew_safe .., monthDayNew_safe ..,
   fromEpochNanos_safe ..⟩

theorem C03_option_resolvers (raw : RawOptions) (since : Bool) (g : UnitGroup) (fl fs e : TUnit) (p : Precision) :
    (fromDiffSettings raw since g fl fs).Safe ∧ (fromDurationOptions raw e).Safe ∧ (fromDatetimeOptions raw).Safe ∧
    (fromInstantOptions raw).Safe ∧ (toStringResolve p raw.smallest raw.mode).Safe :=
  ⟨fromDiffSettings_safe .., fromDurationOptions_safe .., fromDatetimeOptions_safe _, fromInstantOptions_safe _,
   toStringResolve_safe ..⟩

/-- **PlainTime and Instant** — add / subtract / round / until / since. -/
theorem C03_time_instant (t t2 : IsoTime) (i j : Int) (du : Dur) (raw : RawOptions) (since : Bool) (u : TUnit) (inc : Int)
    (mode : Option RMode) :
    (plainTimeAdd t du).Safe ∧ (plainTimeSubtract t du).Safe ∧ (plainTimeRound t u inc mode).Safe ∧
    (plainTimeDiff since t t2 raw).Safe ∧ (instantAdd i du).Safe ∧ (instantSubtract i du).Safe ∧
    (instantRound i raw).Safe ∧ (instantDiff since i j raw).Safe :=
  ⟨plainTimeAdd_safe .., plainTimeSubtract_safe .., plainTimeRound_safe .., plainTimeDiff_safe .., instantAdd_safe ..,
   instantSubtract_safe .., instantRound_safe .., instantDiff_safe ..⟩

/-- **Duration without relativeTo** — add / subtract / compare / round / total. -/
theorem C03_duration (a b : Dur) (raw : RawOptions) (u : TUnit) :
    (a.add b).Safe ∧ (a.subtract b).Safe ∧ (a.compareNoRel b).Safe ∧ (a.roundNoRel raw).Safe ∧ (a.totalNoRel u).Safe :=
  ⟨Dur.add_safe .., Dur.subtract_safe .., Dur.compareNoRel_safe .., Dur.roundNoRel_safe .., Dur.totalNoRel_safe ..⟩

/-- **PlainDate** — add / subtract / until / since (with any rounding options) / with / from_partial / conversions. -/
theorem C03_plain_date (a b : IsoDate) (du : Dur) (ov : Overflow) (oov : Option Overflow) (raw : RawOptions) (since : Bool)
    (p : PartialDate) (k : Int) (ha : MonthOk a) (hb : MonthOk b) :
    (plainDateAdd a du ov).Safe ∧ (plainDateSubtract a du ov).Safe ∧ (plainDateAddDays a k).Safe ∧
    (plainDateDiffFull since a b raw).Safe ∧ (plainDateWith a p oov).Safe ∧ (plainDateFromPartial p oov).Safe ∧
    (dateToYearMonth a).Safe ∧ (dateToMonthDay a).Safe :=
  ⟨plainDateAdd_safe .., plainDateSubtract_safe .., plainDateAddDays_safe .., plainDateDiffFull_safe _ _ _ _ ha hb,
   plainDateWith_safe .., plainDateFromPartial_safe .., dateToYearMonth_safe _, dateToMonthDay_safe _⟩

/-- **PlainDateTime** — add / subtract / round / until / since (with rounding) / with / from_partial. -/
theorem C03_plain_date_time (a b : IsoDateTime) (du : Dur) (ov : Overflow) (oov : Option Overflow) (raw : RawOptions)
    (since : Bool) (pd : PartialDate) (pt : PartialTime) (ha : MonthOk a.date) :
    (plainDateTimeAdd a du ov).Safe ∧ (plainDateTimeSubtract a du ov).Safe ∧ (plainDateTimeRound a raw).Safe ∧
    (plainDateTimeDiffFull since a b raw).Safe ∧ (plainDateTimeWith a pd pt oov).Safe ∧
    (plainDateTimeFromPartial pd pt oov).Safe :=
  ⟨plainDateTimeAdd_safe .., plainDateTimeSubtract_safe .., plainDateTimeRound_safe ..,
   plainDateTimeDiffFull_safe _ _ _ _ ha, plainDateTimeWith_safe .., plainDateTimeFromPartial_safe ..⟩

/-- **PlainTime partial records.** -/
theorem C03_plain_time_partial (t : IsoTime) (p : PartialTime) (oov : Option Overflow) :
    (plainTimeWith t p oov).Safe ∧ (plainTimeFromPartial p oov).Safe :=
  ⟨plainTimeWith_safe .., plainTimeFromPartial_safe ..⟩

/-- **PlainYearMonth / PlainMonthDay** — add / subtract / until / since / with / from_partial. -/
theorem C03_year_month (a b : IsoDate) (du : Dur) (ov : Overflow) (oov : Option Overflow) (raw : RawOptions) (since : Bool)
    (p : PartialDate) (ha : MonthOk a) (hb : MonthOk b) :
    (yearMonthAdd a du ov).Safe ∧ (yearMonthSubtract a du ov).Safe ∧ (yearMonthDiffFull since a b raw).Safe ∧
    (yearMonthWith a p oov).Safe ∧ (yearMonthFromPartial p ov).Safe :=
  ⟨yearMonthAdd_safe .., yearMonthSubtract_safe .., yearMonthDiffFull_safe _ _ _ _ ha hb, yearMonthWith_safe ..,
   yearMonthFromPartial_safe ..⟩

/-- **Duration relative to a plain date** — round / total / compare. -/
theorem C03_duration_relative (a b : Dur) (raw : RawOptions) (u : TUnit) (rel : IsoDate) (hr : MonthOk rel) :
    (a.roundRelPlainDate raw rel).Safe ∧ (a.totalRelPlainDate u rel).Safe ∧ (a.compareRelPlainDate b rel).Safe :=
  ⟨roundRelPlainDate_safe _ _ _ hr, totalRelPlainDate_safe _ _ _ hr, compareRelPlainDate_safe ..⟩

/-- Every value the constructors return carries a month in 1..12, so the receiver hypothesis above is met by every
value a caller can hold. -/
theorem C03_receivers_have_months (y m d : Int) (ov : Overflow) (c : IsoDate)
    (h : IsoDate.newWithOverflow y m d ov = .ok c) : MonthOk c :=
  (newWithOverflow_inRange y m d ov c h).monthOk

/-! Non-vacuity: extreme but valid arguments run through the model without a panic (kernel-evaluated). -/
example : MonthOk ⟨-271821, 4, 19⟩ ∧ MonthOk ⟨275760, 9, 13⟩ := by unfold MonthOk; decide
example : plainDateDiffFull false ⟨-271821, 4, 19⟩ ⟨275760, 9, 13⟩ ⟨some .year, some .month, some 7, some .halfEven⟩ ≠ .panic := by
  intro h
  have := (C03_plain_date ⟨-271821, 4, 19⟩ ⟨275760, 9, 13⟩ Dur.zero .constrain none
    ⟨some .year, some .month, some 7, some .halfEven⟩ false
    ⟨none, none, none, none, false, none⟩ 0 (by unfold MonthOk; decide) (by unfold MonthOk; decide)).2.2.2.1
  rw [h] at this; exact this

end TemporalModel

#print axioms TemporalModel.C03_safe_meaning
#print axioms TemporalModel.C03_diff_loops_terminate
#print axioms TemporalModel.C03_utils_sites
#print axioms TemporalModel.C03_constructors
#print axioms TemporalModel.C03_option_resolvers
#print axioms TemporalModel.C03_time_instant
#print axioms TemporalModel.C03_duration
#print axioms TemporalModel.C03_plain_date
#print axioms TemporalModel.C03_plain_date_time
#print axioms TemporalModel.C03_plain_time_partial
#print axioms TemporalModel.C03_year_month
#print axioms TemporalModel.C03_duration_relative
#print axioms TemporalModel.C03_receivers_have_months
