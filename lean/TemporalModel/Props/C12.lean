/-
  Props/C12.lean — property C12: the parsers accept exactly the Temporal grammar of their type.

  Spec/Grammar.lean + Spec/GrammarOps.lean *are* the grammar, written as a deterministic reader; the theorems below
  establish the type-specific rules the property names for every string, and that every accepted value is
  well-formed.  The implementation (the `ixdtf` crate plus temporal_rs' own rules) is compared with this reader on
  generated, mutated and random strings.
-/
import TemporalModel.Spec.GrammarOps
import TemporalModel.Props.C11
import TemporalModel.Lemmas.DateLemmas
import TemporalModel.Lemmas.DurationLemmas
import TemporalModel.Lemmas.SafeBase
import TemporalModel.Spec.GrammarZoned
namespace TemporalModel
open Gram

/-- Exactly `n` digits are consumed, no more and no fewer. -/
theorem C12_digitsN (n : Nat) (cs : List Char) (v : Nat) (rest : List Char) (h : digitsN n cs = some (v, rest)) :
    ∃ ds, ds.length = n ∧ ds.all Fmt.isDigit = true ∧ cs = ds ++ rest ∧ v = Fmt.readNat ds := by
  unfold digitsN at h
  split at h
  · rename_i hc
    cases h
    exact ⟨cs.take n, by simp [List.length_take]; omega, hc.2, (List.take_append_drop n cs).symm, rfl⟩
  · cases h

theorem digitsN6_zero (rest : List Char) :
    digitsN 6 ('0' :: '0' :: '0' :: '0' :: '0' :: '0' :: rest) = some (0, rest) := by
  unfold digitsN
  have hl : ('0' :: '0' :: '0' :: '0' :: '0' :: '0' :: rest).length ≥ 6 := by simp
  have ha : (('0' :: '0' :: '0' :: '0' :: '0' :: '0' :: rest).take 6).all Fmt.isDigit = true := by
    simp only [List.take]; decide
  rw [if_pos ⟨hl, ha⟩]
  simp only [List.take, List.drop]
  rfl

/-- **C12 (negative zero).** `-000000` is not a year, whatever follows (ASCII hyphen or U+2212). -/
theorem C12_no_negative_zero_year (rest : List Char) :
    year ('-' :: '0' :: '0' :: '0' :: '0' :: '0' :: '0' :: rest) = none ∧
    year ('−' :: '0' :: '0' :: '0' :: '0' :: '0' :: '0' :: rest) = none := by
  constructor
  · simp [year, isMinus, digitsN6_zero]
  · simp [year, isMinus, digitsN6_zero]

theorem drop_takeWhile_length (p : Char → Bool) (l : List Char) : l.drop (l.takeWhile p).length = l.dropWhile p := by
  induction l with
  | nil => rfl
  | cons x xs ih =>
    by_cases h : p x
    · simp [List.takeWhile_cons_of_pos h, List.dropWhile_cons_of_pos h, ih]
    · simp [List.takeWhile_cons_of_neg h, List.dropWhile_cons_of_neg h]

/-- **C12 (at most nine fractional digits).** A fraction is a separator followed by 1..9 digits, and no digit follows
it: a tenth digit makes the whole fraction unreadable. The value is below one second. -/
theorem C12_fraction_at_most_nine (c : Char) (r : List Char) (v : Nat) (rest : List Char)
    (h : fraction (c :: r) = some (v, rest)) :
    (c = '.' ∨ c = ',') ∧ ∃ ds, r = ds ++ rest ∧ 1 ≤ ds.length ∧ ds.length ≤ 9 ∧ ds.all Fmt.isDigit = true ∧
      (∀ x xs, rest = x :: xs → Fmt.isDigit x = false) ∧ v = Fmt.readNat ds * 10 ^ (9 - ds.length) := by
  unfold fraction at h
  simp only at h
  split at h
  · rename_i hc
    split at h
    · rename_i hl
      simp only [Option.some.injEq, Prod.mk.injEq] at h
      obtain ⟨hv, hr⟩ := h
      refine ⟨by simpa using hc, r.takeWhile Fmt.isDigit, ?_, hl.1, hl.2, List.all_takeWhile, ?_, hv.symm⟩
      · rw [← hr, drop_takeWhile_length]; exact List.takeWhile_append_dropWhile.symm
      · intro x xs hx
        rw [← hr, drop_takeWhile_length] at hx
        have := List.head?_dropWhile_not Fmt.isDigit r
        rw [hx] at this
        simpa using this
    · cases h
  · cases h

/-- **C12 (values are well-formed).** Whatever string is accepted, the value produced is a real date inside the
representable range / a date-time inside the limits / an instant inside ±8.64e21 ns / a valid duration. -/
theorem C12_values_wellformed (cs : List Char) :
    (∀ d c, plainDate cs = some (d, c) → InRange d) ∧
    (∀ dt c, plainDateTime cs = some (dt, c) → isoDtWithinValidLimits dt.date dt.time = true) ∧
    (∀ ns, instant cs = some ns → -8640000000000000000000 ≤ ns ∧ ns ≤ 8640000000000000000000) ∧
    (∀ d, durationChecked cs = some d → d.ValidSpec) := by
  refine ⟨?_, ?_, ?_, ?_⟩
  · intro d c h
    unfold plainDate at h
    cases hr : dateTime cs with
    | none => simp [hr] at h
    | some r =>
      simp only [hr, Option.bind_eq_bind, Option.bind_some] at h
      split at h
      · cases h
      · cases hc : calendarId r.calendar with
        | none => simp [hc] at h
        | some cal =>
          simp only [hc, Option.bind_some] at h
          cases ht : plainDateTryNew r.date.year r.date.month r.date.day with
          | ok dd =>
            simp only [ht, Option.some.injEq, Prod.mk.injEq] at h
            obtain ⟨rfl, _⟩ := h
            exact newWithOverflow_inRange _ _ _ _ _ ht
          | err e => simp [ht] at h
          | panic => simp [ht] at h
  · intro dt c h
    unfold plainDateTime at h
    cases hr : dateTime cs with
    | none => simp [hr] at h
    | some r =>
      simp only [hr, Option.bind_eq_bind, Option.bind_some] at h
      split at h
      · cases h
      · cases hc : calendarId r.calendar with
        | none => simp [hc] at h
        | some cal =>
          simp only [hc, Option.bind_some] at h
          generalize isoTimeOf (timeOr0 r.time) = t at h
          cases ht : plainDateTimeTryNew r.date.year r.date.month r.date.day t.hour t.minute t.second t.millisecond
              t.microsecond t.nanosecond with
          | ok dd =>
            simp only [ht, Option.some.injEq, Prod.mk.injEq] at h
            obtain ⟨rfl, _⟩ := h
            unfold plainDateTimeTryNew at ht
            obtain ⟨t', _, ht⟩ := Out.bind_eq_ok ht
            obtain ⟨d', _, ht⟩ := Out.bind_eq_ok ht
            unfold IsoDateTime.new at ht
            split at ht
            · rename_i hl; cases ht; exact hl
            · cases ht
          | err e => simp [ht] at h
          | panic => simp [ht] at h
  · intro ns h
    unfold instant at h
    cases hr : dateTime cs with
    | none => simp [hr] at h
    | some r =>
      simp only [hr, Option.bind_eq_bind, Option.bind_some] at h
      cases ht : r.time with
      | none => simp [ht] at h
      | some t =>
        cases ho : r.offset with
        | none => simp [ht, ho] at h
        | some o =>
          simp only [ht, ho, Option.bind_some] at h
          generalize instantNs r.date t o = val at h
          by_cases hb : -8640000000000000000000 ≤ val ∧ val ≤ 8640000000000000000000
          · rw [if_pos hb] at h; cases h; exact hb
          · rw [if_neg hb] at h; cases h
  · intro d h
    unfold durationChecked at h
    cases hd : duration cs with
    | none => simp [hd] at h
    | some dd =>
      simp only [hd, Option.bind_eq_bind, Option.bind_some] at h
      cases hn : Dur.new dd with
      | ok x =>
        simp only [hn, Option.some.injEq] at h
        subst h
        unfold Dur.new at hn
        split at hn
        · rename_i hv; cases hn; exact (valid_iff _).mp hv
        · cases hn
      | err e => simp [hn] at h
      | panic => simp [hn] at h

/-- **C12 (no UTC designator for plain types).** A string whose date-time part carries `Z` is rejected by the
PlainDate and PlainDateTime readers (and, through the same test, by year-month, month-day and time). -/
theorem C12_plain_rejects_Z (cs : List Char) (r : DateTimeRec) (h : dateTime cs = some r) (hz : r.offset = some POffset.z) :
    plainDate cs = none ∧ plainDateTime cs = none := by
  constructor
  · unfold plainDate; simp [h, hz]
  · unfold plainDateTime; simp [h, hz]

/-- **C12 (instants need a time and an offset or Z).** -/
theorem C12_instant_requires (cs : List Char) (r : DateTimeRec) (h : dateTime cs = some r) :
    (r.offset = none → instant cs = none) ∧ (r.time = none → instant cs = none) := by
  constructor
  · intro ho; unfold instant; simp [h, ho]
  · intro ht; unfold instant; simp [h, ht]

/-- **C12 (annotations).** An unknown annotation with the critical flag is rejected; so are several calendar
annotations when any of them is critical; otherwise the first calendar annotation is the one used. -/
theorem C12_annotation_rules (a : Ann) (anns : List Ann) :
    (a.critical = true → a.key ≠ "u-ca".toList → a ∈ anns → calendarOf anns = none) ∧
    (∀ c1 c2 : Ann, c1.key = "u-ca".toList → c2.key = "u-ca".toList → c1.critical = true ∨ c2.critical = true →
        calendarOf [c1, c2] = none) ∧
    (∀ c1 c2 : Ann, c1.key = "u-ca".toList → c2.key = "u-ca".toList → c1.critical = false → c2.critical = false →
        calendarOf [c1, c2] = some (some c1.value)) := by
  refine ⟨?_, ?_, ?_⟩
  · intro hc hk hm
    unfold calendarOf
    have hk' : ¬ a.key = ['u', '-', 'c', 'a'] := hk
    have : anns.any (fun a => decide (a.critical = true ∧ a.key ≠ "u-ca".toList)) = true := by
      rw [List.any_eq_true]; exact ⟨a, hm, by simp [hc, hk']⟩
    rw [if_pos this]
  · intro c1 c2 h1 h2 hc
    unfold calendarOf
    simp only [List.filter, h1, h2, decide_true, List.any_cons, List.any_nil, Bool.or_false, ne_eq, not_true_eq_false,
      and_false, decide_false, Bool.false_eq_true, if_false, List.length_cons, List.length_nil]
    rcases hc with hc | hc <;> simp [hc]
  · intro c1 c2 h1 h2 hc1 hc2
    unfold calendarOf
    simp [List.filter, h1, h2, hc1, hc2]

/-- **C12 (month codes).** `M00` is not a month code, `M00L` is. -/
theorem C12_month_code_zero : monthCode ['M', '0', '0'] = none ∧ monthCode ['M', '0', '0', 'L'] = some (0, true) := by
  decide

/-- The short year-month and month-day forms are accepted with the ISO calendar only. -/
theorem C12_short_forms :
    yearMonthShort ['2', '0', '2', '0', '-', '0', '5'] = some ((2020, 5), []) ∧
    yearMonthShort ['2', '0', '2', '0', '1', '3'] = none ∧
    monthDayShort ['-', '-', '0', '2', '-', '2', '9'] = some ((2, 29), []) ∧
    monthDayShort ['0', '2', '3', '0'] = none ∧ monthDaySyntactic ['0', '2', '3', '0'] = some ((2, 30), []) := by
  decide

/-- **Time-zone strings: nothing is altered silently.** When an ISO string names a zone by its numeric UTC offset
(no bracketed annotation), the zone's offset in minutes is exactly the offset written — a string whose offset has
seconds or a fraction names no zone; and a bracketed annotation, when present, is what decides. -/
theorem C12_zone_offset_exact (ns m : Int) (h : zoneOfParts (some (.num ns)) none = some (.off m)) :
    ns = m * 60000000000 := by
  unfold zoneOfParts at h
  simp only at h
  split at h
  · rename_i hz
    cases h
    exact (Int.ediv_mul_cancel (Int.dvd_of_emod_eq_zero hz)).symm
  · cases h

theorem C12_zone_annotation_decides (off : Option POffset) (crit : Bool) (n : List Char) :
    zoneOfParts off (some (crit, .name n)) = some (.name n) := rfl

theorem C12_zone_needs_offset_or_annotation : zoneOfParts none none = none := rfl

/-- **Zoned strings.** A ZonedDateTime string without a bracketed time zone is a RangeError whatever the options; a
relativeTo string without one is a plain date and then may not carry `Z`; with one, the date-time is resolved by the
wall-clock rules of C13 under (compatible, offset must match). -/
theorem C12_zoned_requires_annotation (cs : List Char) (r : DateTimeRec) (dis : Disamb) (oo : OffsetOpt)
    (h : dateTime cs = some r) (hz : r.tz = none) : zonedDateTime cs dis oo = .err .range := by
  unfold zonedDateTime
  rw [h]
  simp only [hz]

theorem C12_relative_plain_refuses_Z (cs : List Char) (r : DateTimeRec) (h : dateTime cs = some r)
    (hz : r.tz = none) (ho : r.offset = some .z) : relativeTo cs = .err .range := by
  unfold relativeTo
  rw [h]
  simp only [hz, ho]
  split <;> simp

/-- A zoned string with the `Z` designator denotes the exact UTC instant of its date-time: the result does not depend
on the disambiguation or on the offset option (nor, by C13_exact_offset, on the zone's rules). -/
theorem C12_zoned_Z_is_exact (cs : List Char) (r : DateTimeRec) (t : PTime) (h : dateTime cs = some r)
    (ho : r.offset = some .z) (ht : r.time = some t) (dis dis' : Disamb) (oo oo' : OffsetOpt) :
    zonedDateTime cs dis oo = zonedDateTime cs dis' oo' := by
  unfold zonedDateTime
  rw [h]
  simp only [ho, ht, offsetParts, Option.map_some]
  cases r.tz with
  | none => rfl
  | some cid =>
    cases calendarId r.calendar with
    | none => rfl
    | some cal =>
      simp only
      cases IsoDate.newWithOverflow r.date.year r.date.month r.date.day .reject with
      | ok d => simp only [Out.bind_ok]; unfold interpretOffset; rfl
      | err k => rfl
      | panic => rfl

theorem C12_unparsable_is_range (cs : List Char) (dis : Disamb) (oo : OffsetOpt) (h : dateTime cs = none) :
    zonedDateTime cs dis oo = .err .range ∧ relativeTo cs = .err .range := by
  unfold zonedDateTime relativeTo
  rw [h]
  exact ⟨rfl, rfl⟩

end TemporalModel

#print axioms TemporalModel.C12_digitsN
#print axioms TemporalModel.C12_no_negative_zero_year
#print axioms TemporalModel.C12_fraction_at_most_nine
#print axioms TemporalModel.C12_values_wellformed
#print axioms TemporalModel.C12_plain_rejects_Z
#print axioms TemporalModel.C12_instant_requires
#print axioms TemporalModel.C12_annotation_rules
#print axioms TemporalModel.C12_month_code_zero
#print axioms TemporalModel.C12_short_forms
#print axioms TemporalModel.C12_zone_offset_exact
#print axioms TemporalModel.C12_zoned_requires_annotation
#print axioms TemporalModel.C12_relative_plain_refuses_Z
#print axioms TemporalModel.C12_zoned_Z_is_exact
