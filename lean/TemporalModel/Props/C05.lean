/-
  Props/C05.lean — property C05: PlainDateTime arithmetic, difference and rounding compose date and exact time.
-/
import TemporalModel.Lemmas.TimeLemmas
import TemporalModel.Lemmas.DateLemmas
import TemporalModel.Model.DateTime
import TemporalModel.Props.C07
namespace TemporalModel
open Greg

/-- **AddTime is nanosecond-exact with carry into whole days**: for every time of day and every normalized time
    duration, `86400e9·days + ns(time') = ns(time) + duration` and `time'` is a valid time of day. -/
theorem C05_time_add_exact (t : IsoTime) (n : Int) :
    (timeAddNorm t n).1 * 86400000000000 + (timeAddNorm t n).2.toNs = t.toNs + n ∧
    (timeAddNorm t n).2.isValid = true :=
  timeAddNorm_exact t n

/-- **AddDateTime composes**: the time part is added exactly, its day carry joins the duration's days, and the date
    part is then added as for plain dates (C04); a result outside the limits is a RangeError. -/
theorem C05_add_compose (dt : IsoDateTime) (du : Dur) (ov : Overflow)
    (hn : (du.timeNs.natAbs : Int) ≤ NS_PER_DAY * 2 * MAX_EPOCH_DAYS) :
    plainDateTimeAdd dt du ov =
      (do let dd ← Dur.new ⟨du.years, du.months, du.weeks,
                   F64.ofInt (du.days + wrapI32 (timeAddNorm dt.time du.timeNs).1), 0, 0, 0, 0, 0, 0⟩
          let added ← plainDateAdd dt.date dd ov
          if isoDtWithinValidLimits added (timeAddNorm dt.time du.timeNs).2
          then pure ⟨added, (timeAddNorm dt.time du.timeNs).2⟩ else .err .range) := by
  unfold plainDateTimeAdd IsoDateTime.addDateDuration
  rw [if_neg (by omega)]
  cases h1 : Dur.new ⟨du.years, du.months, du.weeks,
      F64.ofInt (du.days + wrapI32 (timeAddNorm dt.time du.timeNs).1), 0, 0, 0, 0, 0, 0⟩ <;>
    simp only [h1, Out.bind_ok, Out.bind_err, Out.bind_panic, Out.pure_eq_ok]
  rename_i dd
  cases h2 : plainDateAdd dt.date dd ov <;> simp only [h2, Out.bind_ok, Out.bind_err, Out.bind_panic]

/-- Inside the guard the 32-bit day carry is exact (no wrap). -/
theorem C05_carry_no_wrap (t : IsoTime) (n : Int) (ht : t.isValid = true)
    (hn : (n.natAbs : Int) ≤ NS_PER_DAY * 2 * MAX_EPOCH_DAYS) :
    wrapI32 (timeAddNorm t n).1 = (timeAddNorm t n).1 := by
  have h := timeAddNorm_exact t n
  have hr := toNs_range _ h.2
  have h0 := toNs_range t ht
  unfold NS_PER_DAY MAX_EPOCH_DAYS at hn
  unfold wrapI32
  omega

/-- A time duration longer than the whole representable range is a RangeError (never a wrapped value). -/
theorem C05_add_huge_time (dt : IsoDateTime) (du : Dur) (ov : Overflow)
    (hn : (du.timeNs.natAbs : Int) > NS_PER_DAY * 2 * MAX_EPOCH_DAYS) :
    plainDateTimeAdd dt du ov = .err .range := by
  unfold plainDateTimeAdd IsoDateTime.addDateDuration
  rw [if_pos hn]; rfl

/-- **RoundTime to hours (or to a day) is RoundNumberToIncrement counted from midnight**, carried into the next
    day when it reaches 24 h: `86400e9·days + ns(time') = roundSpec(ns(time), inc·len, mode)`. -/
theorem C05_round_hour (t : IsoTime) (inc : Int) (mode : RMode) (ht : t.isValid = true) (hinc : 0 < inc) :
    ∃ days t', t.round ⟨.auto, .hour, inc, mode⟩ = .ok (days, t') ∧ t'.isValid = true ∧
      days * 86400000000000 + t'.toNs = roundSpec t.toNs (inc * 3600000000000) mode := by
  have hq : 0 < inc * 3600000000000 := Int.mul_pos hinc (by decide)
  have hdiv : roundSpec t.toNs (inc * 3600000000000) mode % 3600000000000 = 0 := by
    rcases C07_result_is_neighbour t.toNs (inc * 3600000000000) mode hq with h | h <;>
      rw [C07_round_eq_spec _ _ _ hq] at h <;> rw [h] <;> unfold lowerMultiple
    · rw [Int.mul_assoc, Int.mul_comm 3600000000000, ← Int.mul_assoc]; exact Int.mul_emod_left _ _
    · have : inc * 3600000000000 * (t.toNs / (inc * 3600000000000)) + inc * 3600000000000 =
          (inc * (t.toNs / (inc * 3600000000000)) + inc) * 3600000000000 := by
        rw [Int.add_mul, Int.mul_assoc, Int.mul_comm 3600000000000, ← Int.mul_assoc]
      rw [this]; exact Int.mul_emod_left _ _
  have hb := C07_bracket t.toNs (inc * 3600000000000) hq
  have hr0 := toNs_range t ht
  have hnn : 0 ≤ roundSpec t.toNs (inc * 3600000000000) mode := by
    have hs := lower_sign t.toNs (inc * 3600000000000) hq
    rcases C07_result_is_neighbour t.toNs (inc * 3600000000000) mode hq with h | h <;>
      rw [C07_round_eq_spec _ _ _ hq] at h <;> rw [h] <;> unfold lowerMultiple <;> have := hs.1 hr0.1 <;> omega
  have hround : t.round ⟨.auto, .hour, inc, mode⟩ =
      .ok (IsoTime.balance (Int.tdiv (roundSpec t.toNs (inc * 3600000000000) mode) 3600000000000) 0 0 0 0 0) := by
    unfold IsoTime.round IsoTime.roundQuantity TUnit.asNanoseconds
    have ec : ((3600000000000 : Nat) : Int) = 3600000000000 := rfl
    simp only [ec, C07_round_eq_spec _ _ _ hq]
  rw [hround]
  generalize roundSpec t.toNs (inc * 3600000000000) mode = r at *
  have e : Int.tdiv r 3600000000000 = r / 3600000000000 := Int.tdiv_eq_ediv_of_nonneg hnn
  have hbe := balance_exact (Int.tdiv r 3600000000000) 0 0 0 0 0
  refine ⟨(IsoTime.balance (Int.tdiv r 3600000000000) 0 0 0 0 0).1,
    (IsoTime.balance (Int.tdiv r 3600000000000) 0 0 0 0 0).2, rfl, hbe.2, ?_⟩
  rw [hbe.1, e]; omega

/-- The general commutation law behind the sub-hour units: rounding commutes with adding whole increments. -/
theorem C05_round_shift (x q k : Int) (mode : RMode) (hq : 0 < q) (hx : 0 ≤ x) (hk : 0 ≤ k)
    (hpar : mode ≠ .halfEven ∨ k % 2 = 0) :
    roundSpec (x + q * k) q mode = roundSpec x q mode + q * k := by
  have hfl : (x + q * k) / q = x / q + k := Int.add_mul_ediv_left x k (Int.ne_of_gt hq)
  have hqk : 0 ≤ q * k := Int.mul_nonneg (Int.le_of_lt hq) hk
  have hdist : q * (x / q + k) = q * (x / q) + q * k := Int.mul_add _ _ _
  have hc1 : q * (x / q) / q = x / q := Int.mul_ediv_cancel_left _ (Int.ne_of_gt hq)
  have hc2 : (q * (x / q) + q * k) / q = x / q + k := by
    rw [← hdist]; exact Int.mul_ediv_cancel_left _ (Int.ne_of_gt hq)
  have h1 := Int.emod_nonneg x (Int.ne_of_gt hq)
  have h2 := Int.emod_lt_of_pos x hq
  have h3 := Int.mul_ediv_add_emod x q
  unfold roundSpec lowerMultiple
  simp only [hfl, hdist, hc1, hc2]
  generalize q * k = K at *
  generalize q * (x / q) = P at *
  generalize x / q = fl at *
  cases mode <;> simp only [] <;> (repeat (any_goals split)) <;>
    first | omega | (rcases hpar with h | h <;> first | (exact absurd rfl h) | omega)

/-- Counter-example to the literal "even multiple counted from midnight" reading for sub-hour units: at 01:10 with
    20-minute increments the coded RoundTime (quantity counted from the start of the hour, as ECMAScript Temporal's
    RoundTime specifies) resolves the halfEven tie to 01:00, whereas counted from midnight 01:20 is the even multiple.
    Recorded as known finding C05-halfeven-container-parity. -/
theorem C05_round_halfEven_counterexample :
    plainTimeRound ⟨1, 10, 0, 0, 0, 0⟩ .minute 20 (some .halfEven) = .ok ⟨1, 0, 0, 0, 0, 0⟩ ∧
    roundSpec (IsoTime.toNs ⟨1, 10, 0, 0, 0, 0⟩) (20 * 60000000000) .halfEven = IsoTime.toNs ⟨1, 20, 0, 0, 0, 0⟩ := by
  decide

/-- `since` = negated `until` with the mirrored mode; `subtract(d) = add(−d)`. -/
theorem C05_subtract (dt : IsoDateTime) (du : Dur) (ov : Overflow) :
    plainDateTimeSubtract dt du ov = plainDateTimeAdd dt du.negated ov := rfl

/-! Witnesses (kernel-decided): the wrapped day carry and the Assert-instead-of-Range defect, now RangeErrors. -/
example : plainDateTimeAdd ⟨⟨2020, 1, 1⟩, ⟨0, 0, 0, 0, 0, 0⟩⟩ ⟨0, 0, 0, 0, 103079215104, 0, 0, 0, 0, 0⟩ .constrain
    = .err .range := by decide
example : plainDateTimeAdd ⟨⟨-271821, 4, 19⟩, ⟨0, 0, 0, 0, 0, 1⟩⟩ ⟨0, 0, 0, 0, 0, 0, 0, 0, 0, -1⟩ .constrain
    = .err .range := by decide
example : plainDateTimeAdd ⟨⟨2024, 1, 31⟩, ⟨23, 30, 0, 0, 0, 0⟩⟩ ⟨0, 1, 0, 0, 1, 0, 0, 0, 0, 0⟩ .constrain
    = .ok ⟨⟨2024, 3, 1⟩, ⟨0, 30, 0, 0, 0, 0⟩⟩ := by decide

end TemporalModel

#print axioms TemporalModel.C05_time_add_exact
#print axioms TemporalModel.C05_add_compose
#print axioms TemporalModel.C05_carry_no_wrap
#print axioms TemporalModel.C05_add_huge_time
#print axioms TemporalModel.C05_round_hour
#print axioms TemporalModel.C05_round_shift
#print axioms TemporalModel.C05_round_halfEven_counterexample
#print axioms TemporalModel.C05_subtract
