/-
  Props/C02.lean — property C02: every value an operation returns is well-formed and inside Temporal's range, and the
  range boundaries are exact.

  Well-formedness predicates:
    dates        `InRange d`   — a real calendar day (`Valid`) whose day number lies in [-10^8 - 1, 10^8]
    date-times   `isoDtWithinValidLimits` (strictly inside ±(8.64e21 + 86400e9) ns) with a real day and a valid time
    instants     |ns| ≤ 8.64e21
    times        `IsoTime.isValid`
    durations    `Dur.ValidSpec` (sign-uniform, calendar fields < 2^32, total time < 2^53 s)
    year-months  within -271821-04 .. +275760-09

  "Never a clamped, wrapped or different value" is the content of the exact-arithmetic theorems of C04/C05/C06/C09
  (the result is the exact value or a RangeError); here the shape of the successful results and the exact position of
  every boundary are proved.
-/
import TemporalModel.Lemmas.SafeLemmas
import TemporalModel.Props.C06
import TemporalModel.Props.C09
import TemporalModel.Props.C18
import TemporalModel.Model.EpochConv
namespace TemporalModel
open Out

/-! ### Dates -/

theorem plainDateAdd_inRange {d : IsoDate} {du : Dur} {ov : Overflow} {c : IsoDate}
    (h : plainDateAdd d du ov = .ok c) : InRange c := by
  unfold plainDateAdd at h
  obtain ⟨bal, _, h⟩ := bind_eq_ok h
  dsimp only at h
  split at h
  · obtain ⟨r, _, h⟩ := bind_eq_ok h
    exact newWithOverflow_inRange _ _ _ _ _ h
  · obtain ⟨_, _, h⟩ := bind_eq_ok h
    obtain ⟨r, _, h⟩ := bind_eq_ok h
    exact newWithOverflow_inRange _ _ _ _ _ h

/-- **C02 (dates).** Every date returned by a constructor, by add / subtract, by `with` / `from_partial` or by a
conversion to a month-day is a real calendar day inside the representable range. -/
theorem C02_date_results (y m d k : Int) (ov : Overflow) (oov : Option Overflow) (a : IsoDate) (du : Dur) (p : PartialDate)
    (ry : Option Int) (c : IsoDate) :
    (plainDateTryNew y m d = .ok c → InRange c) ∧
    (IsoDate.newWithOverflow y m d ov = .ok c → InRange c) ∧
    (plainDateAdd a du ov = .ok c → InRange c) ∧
    (plainDateSubtract a du ov = .ok c → InRange c) ∧
    (plainDateAddDays a k = .ok c → InRange c) ∧
    (plainDateFromPartial p oov = .ok c → InRange c) ∧
    (plainDateWith a p oov = .ok c → InRange c) ∧
    (monthDayNew m d ov ry = .ok c → InRange c) := by
  refine ⟨newWithOverflow_inRange _ _ _ _ _, newWithOverflow_inRange _ _ _ _ _, plainDateAdd_inRange, plainDateAdd_inRange,
    ?_, ?_, ?_, newWithOverflow_inRange _ _ _ _ _⟩
  · intro h
    unfold plainDateAddDays at h
    obtain ⟨i, _, h⟩ := bind_eq_ok h
    exact newWithOverflow_inRange _ _ _ _ _ h
  · intro h
    unfold plainDateFromPartial at h
    dsimp only at h
    split at h
    · cases h
    · unfold dateFromPartial at h
      obtain ⟨⟨y', m', d'⟩, _, h⟩ := bind_eq_ok h
      exact newWithOverflow_inRange _ _ _ _ _ h
  · intro h
    unfold plainDateWith at h
    split at h
    · cases h
    · obtain ⟨merged, _, h⟩ := bind_eq_ok h
      unfold dateFromPartial at h
      obtain ⟨⟨y', m', d'⟩, _, h⟩ := bind_eq_ok h
      exact newWithOverflow_inRange _ _ _ _ _ h

/-- **C02 (date boundary, exact).** The first and last representable days succeed, the days just outside fail with a
RangeError — in both overflow modes. -/
theorem C02_date_boundary (ov : Overflow) :
    IsoDate.newWithOverflow (-271821) 4 19 ov = .ok ⟨-271821, 4, 19⟩ ∧
    IsoDate.newWithOverflow (-271821) 4 18 ov = .err .range ∧
    IsoDate.newWithOverflow 275760 9 13 ov = .ok ⟨275760, 9, 13⟩ ∧
    IsoDate.newWithOverflow 275760 9 14 ov = .err .range := by
  cases ov <;> decide

/-! ### Date-times -/

/-- **C02 (date-times).** Every date-time returned by the constructor, add / subtract, round, `with` or
`from_partial` passes the range check of the code: strictly inside ±(10^8 days + 1 day) around the epoch. -/
theorem C02_date_time_results (a : IsoDateTime) (du : Dur) (ov : Overflow) (raw : RawOptions) (r : IsoDateTime)
    (y m d h mi s ms us ns : Int) :
    (plainDateTimeTryNew y m d h mi s ms us ns = .ok r → isoDtWithinValidLimits r.date r.time = true) ∧
    (plainDateTimeAdd a du ov = .ok r → isoDtWithinValidLimits r.date r.time = true) ∧
    (plainDateTimeSubtract a du ov = .ok r → isoDtWithinValidLimits r.date r.time = true) ∧
    (plainDateTimeRound a raw = .ok r → isoDtWithinValidLimits r.date r.time = true) := by
  have hnew : ∀ (dd : IsoDate) (t : IsoTime), IsoDateTime.new dd t = .ok r → isoDtWithinValidLimits r.date r.time = true := by
    intro dd t h
    unfold IsoDateTime.new at h
    split at h
    · rename_i hl; cases h; exact hl
    · cases h
  have hadd : ∀ (x : Dur), plainDateTimeAdd a x ov = .ok r → isoDtWithinValidLimits r.date r.time = true := by
    intro x h
    unfold plainDateTimeAdd at h
    obtain ⟨r', _, h⟩ := bind_eq_ok h
    split at h
    · rename_i hl; cases h; exact hl
    · cases h
  refine ⟨?_, hadd du, hadd du.negated, ?_⟩
  · intro h
    unfold plainDateTimeTryNew at h
    obtain ⟨t, _, h⟩ := bind_eq_ok h
    obtain ⟨dd, _, h⟩ := bind_eq_ok h
    exact hnew _ _ h
  · intro h
    unfold plainDateTimeRound at h
    obtain ⟨o, _, h⟩ := bind_eq_ok h
    obtain ⟨⟨days, time⟩, _, h⟩ := bind_eq_ok h
    exact hnew _ _ h

/-- **C02 (date-time boundary, exact).** One nanosecond after the lower limit and one before the upper limit are
representable; the limits themselves are not. -/
theorem C02_date_time_boundary :
    plainDateTimeTryNew (-271821) 4 19 0 0 0 0 0 1 = .ok ⟨⟨-271821, 4, 19⟩, ⟨0, 0, 0, 0, 0, 1⟩⟩ ∧
    plainDateTimeTryNew (-271821) 4 19 0 0 0 0 0 0 = .err .range ∧
    plainDateTimeTryNew 275760 9 13 23 59 59 999 999 999 = .ok ⟨⟨275760, 9, 13⟩, ⟨23, 59, 59, 999, 999, 999⟩⟩ ∧
    plainDateTimeTryNew 275760 9 14 0 0 0 0 0 0 = .err .range := by decide

/-! ### Instants -/

/-- **C02 (instants).** Every instant returned lies within ±8.64e21 ns, and the boundary is exact: the limit itself
is an instant, one nanosecond beyond is a RangeError. -/
theorem C02_instant_results (i ms : Int) (du : Dur) (raw : RawOptions) (r : Int) :
    (instantTryNew i = .ok r → (r.natAbs : Int) ≤ 8640000000000000000000) ∧
    (instantAdd i du = .ok r → (r.natAbs : Int) ≤ 8640000000000000000000) ∧
    (instantSubtract i du = .ok r → (r.natAbs : Int) ≤ 8640000000000000000000) ∧
    (instantRound i raw = .ok r → (r.natAbs : Int) ≤ 8640000000000000000000) ∧
    (instantFromEpochMs ms = .ok r → (r.natAbs : Int) ≤ 8640000000000000000000) := by
  have key : ∀ x : Int, instantTryNew x = .ok r → (r.natAbs : Int) ≤ 8640000000000000000000 := by
    intro x h
    unfold instantTryNew nsMaxInstant at h
    split at h
    · cases h; omega
    · cases h
  refine ⟨key i, ?_, ?_, ?_, key _⟩
  · intro h; unfold instantAdd at h; split at h
    · cases h
    · exact key _ h
  · intro h; unfold instantSubtract at h; split at h
    · cases h
    · exact key _ h
  · intro h; unfold instantRound at h
    obtain ⟨o, _, h⟩ := bind_eq_ok h
    obtain ⟨x, _, h⟩ := bind_eq_ok h
    exact key _ h

theorem C02_instant_boundary :
    instantTryNew 8640000000000000000000 = .ok 8640000000000000000000 ∧
    instantTryNew 8640000000000000000001 = .err .range ∧
    instantTryNew (-8640000000000000000000) = .ok (-8640000000000000000000) ∧
    instantTryNew (-8640000000000000000001) = .err .range := by decide

/-- Adding to an instant never clamps or wraps: the result is the exact sum or a RangeError (C06). -/
theorem C02_instant_add_exact (i : Int) (d : Dur) (h : d.isTimeDuration = true) :
    instantAdd i d = (if -8640000000000000000000 ≤ i + d.timeNs ∧ i + d.timeNs ≤ 8640000000000000000000
                      then .ok (i + d.timeNs) else .err .range) := by
  unfold instantAdd instantTryNew nsMaxInstant
  simp [h]

/-! ### Times -/

/-- **C02 (times).** Every time of day returned by the constructor, add / subtract, round, `with`, `from_partial` has
all six fields inside their ranges. -/
theorem C02_time_results (t : IsoTime) (du : Dur) (u : TUnit) (inc : Int) (mode : Option RMode) (p : PartialTime)
    (oov : Option Overflow) (h mi s ms us ns : Int) (r : IsoTime) :
    (plainTimeTryNew h mi s ms us ns = .ok r → r.isValid = true) ∧
    (plainTimeAdd t du = .ok r → r.isValid = true) ∧
    (plainTimeSubtract t du = .ok r → r.isValid = true) ∧
    (plainTimeRound t u inc mode = .ok r → r.isValid = true) ∧
    (plainTimeWith t p oov = .ok r → r.isValid = true) ∧
    (plainTimeFromPartial p oov = .ok r → r.isValid = true) := by
  have hadd : ∀ x : Dur, plainTimeAdd t x = .ok r → r.isValid = true := by
    intro x h
    unfold plainTimeAdd at h
    split at h
    · cases h
    · cases h; exact (timeAddNorm_exact t x.timeNs).2
  have hnew : ∀ (a b c d e f : Int) (ov : Overflow) (hv : ov = .constrain → True), isoTimeNew a b c d e f ov = .ok r → r.isValid = true := by
    intro a b c d e f ov _ h
    unfold isoTimeNew at h
    cases ov with
    | constrain =>
      cases h
      rw [isValid_iff]; simp only [clamp]
      refine ⟨?_, ?_, ?_, ?_, ?_, ?_, ?_, ?_, ?_, ?_, ?_, ?_⟩ <;> (repeat' split) <;> omega
    | reject =>
      dsimp only at h
      split at h
      · rename_i hv; cases h; exact hv
      · cases h
  refine ⟨?_, hadd du, hadd du.negated, ?_, ?_, ?_⟩
  · intro h
    unfold plainTimeTryNew at h
    dsimp only at h
    split at h
    · rename_i hv; cases h; exact hv
    · cases h
  · intro h
    unfold plainTimeRound at h
    obtain ⟨i', _, h⟩ := bind_eq_ok h
    obtain ⟨mx, _, h⟩ := bind_eq_ok h
    cases mx with
    | none => cases h
    | some mx =>
      dsimp only at h
      obtain ⟨_, _, h⟩ := bind_eq_ok h
      obtain ⟨⟨dd, res⟩, hr, h⟩ := bind_eq_ok h
      cases h
      unfold IsoTime.round at hr
      split at hr
      · dsimp only at hr
        split at hr <;> first | (cases hr; first | exact (balance_exact ..).2 | decide | rfl) | cases hr
      · cases hr
  · intro h
    unfold plainTimeWith at h
    split at h
    · cases h
    · exact hnew _ _ _ _ _ _ _ (fun _ => trivial) h
  · intro h
    unfold plainTimeFromPartial at h
    split at h
    · cases h
    · exact hnew _ _ _ _ _ _ _ (fun _ => trivial) h

/-! ### Durations -/

theorem ite_valid_ok {x r : Dur} (h : (if x.isValid then Out.ok x else .err .range) = .ok r) : r.ValidSpec := by
  split at h
  · rename_i hv; cases h; exact (valid_iff _).mp hv
  · cases h

theorem timeFromNormalized_valid {n : Int} {L : TUnit} {r : Dur} (h : timeFromNormalized n L = .ok r) : r.ValidSpec := by
  unfold timeFromNormalized at h
  cases hb : balanceDepth L with
  | none => rw [hb] at h; cases h
  | some k => rw [hb] at h; exact ite_valid_ok h

theorem Dur.new_valid {d r : Dur} (h : Dur.new d = .ok r) : r.ValidSpec := by
  unfold Dur.new at h
  split at h
  · rename_i hv; cases h; exact (valid_iff _).mp hv
  · cases h

theorem durFromNormalized_valid {date : Dur} {n : Int} {L : TUnit} {r : Dur} (h : durFromNormalized date n L = .ok r) :
    r.ValidSpec := by
  unfold durFromNormalized at h
  obtain ⟨t, _, h⟩ := bind_eq_ok h
  exact Dur.new_valid h

theorem ite_negated_valid (b : Bool) (r : Dur) (h : r.ValidSpec) : (if b then r.negated else r).ValidSpec := by
  cases b
  · exact h
  · exact (C09_negated r).2.2.2 h

/-- **C02 (durations).** Every duration returned — by the constructor, add / subtract, round (with or without a
relative date), and until / since of every type — is sign-uniform and inside the duration limits. -/
theorem C02_duration_results (a b : Dur) (raw : RawOptions) (since : Bool) (t1 t2 : IsoTime) (i j : Int)
    (d1 d2 : IsoDate) (dt1 dt2 : IsoDateTime) (rel : IsoDate) (r : Dur) :
    (Dur.new a = .ok r → r.ValidSpec) ∧
    (a.add b = .ok r → r.ValidSpec) ∧
    (a.subtract b = .ok r → r.ValidSpec) ∧
    (plainTimeDiff since t1 t2 raw = .ok r → r.ValidSpec) ∧
    (instantDiff since i j raw = .ok r → r.ValidSpec) ∧
    (plainDateDiffFull since d1 d2 raw = .ok r → r.ValidSpec) ∧
    (plainDateTimeDiffFull since dt1 dt2 raw = .ok r → r.ValidSpec) ∧
    (yearMonthDiffFull since d1 d2 raw = .ok r → r.ValidSpec) ∧
    (a.roundRelPlainDate raw rel = .ok r → a.ValidSpec → r.ValidSpec) := by
  have hzero : Dur.zero.ValidSpec := (valid_iff _).mp (by decide)
  have hadd : ∀ x y : Dur, x.add y = .ok r → r.ValidSpec := by
    intro x y h
    unfold Dur.add at h
    dsimp only at h
    split at h
    · cases h
    · obtain ⟨n, _, h⟩ := bind_eq_ok h
      obtain ⟨n2, _, h⟩ := bind_eq_ok h
      exact timeFromNormalized_valid h
  refine ⟨Dur.new_valid, hadd a b, hadd a b.negated, ?_, ?_, ?_, ?_, ?_, ?_⟩
  · intro h
    unfold plainTimeDiff at h
    obtain ⟨o, _, h⟩ := bind_eq_ok h
    dsimp only at h
    obtain ⟨n, _, h⟩ := bind_eq_ok h
    obtain ⟨x, hx, h⟩ := bind_eq_ok h
    cases h
    exact ite_negated_valid _ _ (timeFromNormalized_valid hx)
  · intro h
    unfold instantDiff at h
    obtain ⟨o, _, h⟩ := bind_eq_ok h
    obtain ⟨n, _, h⟩ := bind_eq_ok h
    obtain ⟨⟨q, rr⟩, _, h⟩ := bind_eq_ok h
    dsimp only at h
    obtain ⟨x, _, h⟩ := bind_eq_ok h
    obtain ⟨y, hy, h⟩ := bind_eq_ok h
    cases h
    exact ite_negated_valid _ _ (Dur.new_valid hy)
  · intro h
    unfold plainDateDiffFull at h
    obtain ⟨o, _, h⟩ := bind_eq_ok h
    split at h
    · cases h; exact hzero
    · obtain ⟨x, _, h⟩ := bind_eq_ok h
      dsimp only at h
      obtain ⟨⟨date, td⟩, _, h⟩ := bind_eq_ok h
      dsimp only at h
      obtain ⟨y, hy, h⟩ := bind_eq_ok h
      cases h
      exact ite_negated_valid _ _ (durFromNormalized_valid hy)
  · intro h
    unfold plainDateTimeDiffFull at h
    obtain ⟨o, _, h⟩ := bind_eq_ok h
    split at h
    · cases h; exact hzero
    · obtain ⟨⟨date, td⟩, _, h⟩ := bind_eq_ok h
      dsimp only at h
      obtain ⟨y, hy, h⟩ := bind_eq_ok h
      cases h
      exact ite_negated_valid _ _ (durFromNormalized_valid hy)
  · intro h
    unfold yearMonthDiffFull at h
    split at h
    · cases h
    · obtain ⟨o, _, h⟩ := bind_eq_ok h
      split at h
      · cases h; exact hzero
      · dsimp only at h
        obtain ⟨x, _, h⟩ := bind_eq_ok h
        obtain ⟨⟨date, td⟩, _, h⟩ := bind_eq_ok h
        dsimp only at h
        obtain ⟨y, hy, h⟩ := bind_eq_ok h
        cases h
        exact ite_negated_valid _ _ (durFromNormalized_valid hy)
  · intro h ha
    unfold Dur.roundRelPlainDate at h
    obtain ⟨o, _, h⟩ := bind_eq_ok h
    dsimp only at h
    split at h
    · cases h; exact ha
    · split at h
      · cases h
      obtain ⟨dd, _, h⟩ := bind_eq_ok h
      obtain ⟨target, _, h⟩ := bind_eq_ok h
      obtain ⟨p1, _, h⟩ := bind_eq_ok h
      obtain ⟨p2, _, h⟩ := bind_eq_ok h
      obtain ⟨⟨date, td⟩, _, h⟩ := bind_eq_ok h
      exact durFromNormalized_valid h

/-- **C02 (duration boundary, exact).** 2^32 − 1 years and 2^53 − 1 seconds are durations; 2^32 years and 2^53
seconds are RangeErrors; mixed signs are rejected. -/
theorem C02_duration_boundary :
    Dur.new ⟨4294967295, 0, 0, 0, 0, 0, 0, 0, 0, 0⟩ = .ok ⟨4294967295, 0, 0, 0, 0, 0, 0, 0, 0, 0⟩ ∧
    Dur.new ⟨4294967296, 0, 0, 0, 0, 0, 0, 0, 0, 0⟩ = .err .range ∧
    Dur.new ⟨0, 0, 0, 0, 0, 0, 9007199254740991, 0, 0, 999999999⟩ = .ok ⟨0, 0, 0, 0, 0, 0, 9007199254740991, 0, 0, 999999999⟩ ∧
    Dur.new ⟨0, 0, 0, 0, 0, 0, 9007199254740992, 0, 0, 0⟩ = .err .range ∧
    Dur.new ⟨0, 0, 0, 104249991374, 0, 0, 0, 0, 0, 0⟩ = .ok ⟨0, 0, 0, 104249991374, 0, 0, 0, 0, 0, 0⟩ ∧
    Dur.new ⟨0, 0, 0, 104249991375, 0, 0, 0, 0, 0, 0⟩ = .err .range ∧
    Dur.new ⟨1, 0, 0, -1, 0, 0, 0, 0, 0, 0⟩ = .err .range := by decide

/-! ### Year-months -/

/-- **C02 (year-months).** A year-month is returned iff it lies within -271821-04 .. +275760-09 (C18_limits), for
both overflow modes and any reference day. -/
theorem C02_year_month_boundary (ov : Overflow) :
    yearMonthNew (-271821) 4 none ov = .ok ⟨-271821, 4, 1⟩ ∧ yearMonthNew (-271821) 3 none ov = .err .range ∧
    yearMonthNew 275760 9 none ov = .ok ⟨275760, 9, 1⟩ ∧ yearMonthNew 275760 10 none ov = .err .range := by
  cases ov <;> decide

theorem C02_year_month_results (y m : Int) (rd : Option Int) (ov : Overflow) (r : IsoDate)
    (h : yearMonthNew y m rd ov = .ok r) : yearMonthWithinLimits r.year r.month = true := by
  unfold yearMonthNew at h
  obtain ⟨iso, _, h⟩ := bind_eq_ok h
  split at h
  · rename_i hl; cases h; exact hl
  · cases h

/-! Non-vacuity -/
example : plainDateAdd ⟨275760, 9, 12⟩ ⟨0, 0, 0, 1, 0, 0, 0, 0, 0, 0⟩ .constrain = .ok ⟨275760, 9, 13⟩ := by decide
example : plainDateAdd ⟨275760, 9, 13⟩ ⟨0, 0, 0, 1, 0, 0, 0, 0, 0, 0⟩ .constrain = .err .range := by decide

/-- **C02 (epoch nanoseconds from numbers)**: `EpochNanoseconds::try_from` of an i128, of a u128 (any value up to
    2^128 − 1: nothing wraps into range) and of an integral double returns the value itself when it lies inside the
    instant range and a RangeError otherwise. -/
theorem C02_epoch_ns_conversions (v : Int) :
    (enFromI128 v = if -nsMaxInstant ≤ v ∧ v ≤ nsMaxInstant then .ok v else .err .range) ∧
    (0 ≤ v → enFromU128 v = if -nsMaxInstant ≤ v ∧ v ≤ nsMaxInstant then .ok v else .err .range) ∧
    (enFromF64 v = if -nsMaxInstant ≤ v ∧ v ≤ nsMaxInstant then .ok v else .err .range) := enFrom_spec v

end TemporalModel

#print axioms TemporalModel.C02_date_results
#print axioms TemporalModel.C02_date_boundary
#print axioms TemporalModel.C02_date_time_results
#print axioms TemporalModel.C02_date_time_boundary
#print axioms TemporalModel.C02_instant_results
#print axioms TemporalModel.C02_instant_boundary
#print axioms TemporalModel.C02_instant_add_exact
#print axioms TemporalModel.C02_time_results
#print axioms TemporalModel.C02_duration_results
#print axioms TemporalModel.C02_duration_boundary
#print axioms TemporalModel.C02_year_month_boundary
#print axioms TemporalModel.C02_year_month_results
#print axioms TemporalModel.C02_epoch_ns_conversions
