import Driver.Util
import TemporalModel.Model.IsoTime
import TemporalModel.Spec.Round
namespace Driver
open TemporalModel

def handleC07 : Handler
  | ["rnd_i128", x, inc, m] => do
      let x ← int? x; let inc ← int? inc; let m ← mode? m
      if inc ≤ 0 then none else
      some s!"ok {RoundI128.round x inc m}"
  | ["in_round", ns, u, inc, m] => do
      let ns ← int? ns; let u ← optUnit? u; let inc ← int? inc; let m ← optMode? m
      let r : Out Int := do
        let ns ← instantTryNew ns
        let inc ← incrementTryNew inc
        instantRound ns { largest := none, smallest := u, increment := some inc, mode := m }
      some (r.render toString)
  | ["pt_round", h, mi, s, ms, us, ns, u, inc, m] => do
      let f ← ints? [h, mi, s, ms, us, ns]
      let u ← unit? u; let inc ← int? inc; let m ← optMode? m
      match f with
      | [h, mi, s, ms, us, ns] =>
        let r : Out IsoTime := do
          let t ← plainTimeTryNew h mi s ms us ns
          plainTimeRound t u inc m
        some (r.render IsoTime.render)
      | _ => none
  | _ => none

end Driver
