import TemporalModel.Model.Prim
namespace Driver
open TemporalModel

def int? (s : String) : Option Int := s.toInt?
def nat? (s : String) : Option Nat := s.toNat?

def optInt? (s : String) : Option (Option Int) :=
  if s == "-" then some none else (s.toInt?).map some

def unit? (s : String) : Option TUnit := TUnit.ofName? s
def optUnit? (s : String) : Option (Option TUnit) :=
  if s == "-" then some none else (TUnit.ofName? s).map some
def mode? (s : String) : Option RMode := RMode.ofName? s
def optMode? (s : String) : Option (Option RMode) :=
  if s == "-" then some none else (RMode.ofName? s).map some

def ints? (ss : List String) : Option (List Int) := ss.mapM int?

def joinSp (xs : List String) : String := " ".intercalate xs
def showInts (xs : List Int) : String := joinSp (xs.map toString)

abbrev Handler := List String → Option String

end Driver
