import Driver.Util
import Driver.C04
import TemporalModel.Model.Relative
import TemporalModel.Spec.Round
namespace Driver
open TemporalModel

def dt? (ss : List String) : Option (Out IsoDateTime) := do
  let f ← ints? ss
  match f with
  | [y, m, d, h, mi, s, ms, us, ns] => some (plainDateTimeTryNew y m d h mi s ms us ns)
  | _ => none

def handleC05 (toks : List String) : Option String :=
  match toks with
  | op :: rest =>
    if op == "pdt_add" || op == "pdt_sub" then do
      let a ← dt? (rest.take 9)
      let d ← dur? ((rest.drop 9).take 10)
      match rest.drop 19 with
      | [ov] => do
        let ov ← overflow? ov
        some ((do let a ← a; let d ← Dur.new d
                  if op == "pdt_add" then plainDateTimeAdd a d ov else plainDateTimeSubtract a d ov : Out IsoDateTime).render IsoDateTime.render)
      | _ => none
    else if op == "pdt_until" || op == "pdt_since" then do
      let a ← dt? (rest.take 9); let b ← dt? ((rest.drop 9).take 9)
      match rest.drop 18 with
      | [l, s, inc, m] => do
        let o ← rawOptions l s inc m
        match a, b, o with
        | .ok a, .ok b, .ok o =>
          some ((plainDateTimeDiffFull (op == "pdt_since") a b o).render Dur.render)
        | .ok _, .ok _, .err k => some ("err " ++ k.name)
        | .ok _, .err k, _ => some ("err " ++ k.name)
        | .err k, _, _ => some ("err " ++ k.name)
        | _, _, _ => some "panic"
      | _ => none
    else if op == "pdt_round" then do
      let a ← dt? (rest.take 9)
      match rest.drop 9 with
      | [s, inc, m] => do
        let o ← rawOptions "-" s inc m
        some ((do let a ← a; let o ← o; plainDateTimeRound a o : Out IsoDateTime).render IsoDateTime.render)
      | _ => none
    else if op == "pdt_round_spec" then do
      -- property-level oracle: the multiple counted from midnight selected by the mode, carried into the next day
      let a ← dt? (rest.take 9)
      match rest.drop 9 with
      | [su, inc, m] => do
        let o ← rawOptions "-" su inc m
        some ((do
          let a ← a; let o ← o
          let r ← fromDatetimeOptions o
          match r.smallest.asNanoseconds with
          | none => Out.err .range
          | some len =>
            let x := roundSpec a.time.toNs (r.increment * len) r.mode
            let days := x / 86400000000000
            let tod := x % 86400000000000
            let t : IsoTime := ⟨tod / 3600000000000, tod / 60000000000 % 60, tod / 1000000000 % 60,
              tod / 1000000 % 1000, tod / 1000 % 1000, tod % 1000⟩
            let date := IsoDate.balance a.date.year a.date.month (a.date.day + days)
            IsoDateTime.new date t : Out IsoDateTime).render IsoDateTime.render)
      | _ => none
    else if op == "pt_round_spec" then do
      match rest with
      | [h, mi, sec, ms, us, ns, su, inc, m] => do
        let f ← ints? [h, mi, sec, ms, us, ns]
        let u ← unit? su; let inc ← int? inc; let md ← optMode? m
        match f with
        | [h, mi, sec, ms, us, ns] =>
          some ((do
            let t ← plainTimeTryNew h mi sec ms us ns
            -- same validation as the operation itself
            let _ ← plainTimeRound t u inc md
            match u.asNanoseconds with
            | none => Out.err .range
            | some len =>
              let x := roundSpec t.toNs (inc * len) (md.getD .halfExpand)
              let tod := x % 86400000000000
              pure (⟨tod / 3600000000000, tod / 60000000000 % 60, tod / 1000000000 % 60,
                tod / 1000000 % 1000, tod / 1000 % 1000, tod % 1000⟩ : IsoTime) : Out IsoTime).render IsoTime.render)
        | _ => none
      | _ => none
    else if op == "pdt_law_inv" then do
      let a ← dt? (rest.take 9); let b ← dt? ((rest.drop 9).take 9)
      match rest.drop 18 with
      | [l] => do
        let o ← rawOptions l "-" "-" "-"
        -- computed with the model's own until and add (exact whenever every field is below 2^53, theorem C05_add_until)
        let r : Out Int := do
          let a ← a; let b ← b; let o ← o
          match plainDateTimeDiff false a b o with
          | none => .panic
          | some d => do
            let d ← d
            let back ← plainDateTimeAdd a d .constrain
            pure (if back = b then 1 else 0)
        some (r.render toString)
      | _ => none
    else none
  | _ => none

end Driver
