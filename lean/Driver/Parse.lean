import Driver.Util
import Driver.Tzdb
import TemporalModel.Spec.GrammarOps
import TemporalModel.Spec.GrammarZoned
import Driver.Zone
namespace Driver
open TemporalModel

def okOr (o : Option String) : String := match o with | some s => "ok " ++ s | none => "err range"

def handleParse (toks : List String) : Option String :=
  match toks with
  | ["p_zdt", h, dis, oo] => do
    let s ← unhex h
    let dis ← disamb? dis; let oo ← offOpt? oo
    let cs := s.toList
    if !(Gram.coveredZone cs) then some "skip" else
    some ((Gram.zonedDateTime cs dis oo).render (fun (ns, cal) => s!"{ns} {cal}"))
  | ["p_rel", h] => do
    let s ← unhex h
    let cs := s.toList
    if !(Gram.coveredZone cs) then some "skip" else
    some ((Gram.relativeTo cs).render (fun r => match r with
      | .plain d cal => s!"plain {d.year} {d.month} {d.day} {cal}"
      | .zoned ns cal => s!"zoned {ns} {cal}"))
  | [op, h] => do
    if !op.startsWith "p_" then none else
    let s ← unhex h
    let cs := s.toList
    match op with
    | "p_date" => some (okOr ((Gram.plainDate cs).map (fun (d, c) => s!"{d.year} {d.month} {d.day} {c}")))
    | "p_datetime" => some (okOr ((Gram.plainDateTime cs).map (fun (d, c) =>
        s!"{d.date.year} {d.date.month} {d.date.day} {d.time.hour} {d.time.minute} {d.time.second} {d.time.millisecond} {d.time.microsecond} {d.time.nanosecond} {c}")))
    | "p_time" => some (okOr ((Gram.plainTime cs).map (fun t =>
        s!"{t.hour} {t.minute} {t.second} {t.millisecond} {t.microsecond} {t.nanosecond}")))
    | "p_yearmonth" => some (okOr ((Gram.plainYearMonth cs).map (fun (y, m) => s!"{y} {m}")))
    | "p_monthday" => some (okOr ((Gram.plainMonthDay cs).map (fun (m, d) => s!"{m} {d}")))
    | "p_instant" => some (okOr ((Gram.instant cs).map toString))
    | "p_duration" => some (okOr ((Gram.durationChecked cs).map Dur.render))
    | "p_offset" => some (okOr ((Gram.utcOffset cs).map toString))
    | "p_tz" => some (okOr ((Gram.timeZone cs).map Gram.TzOut.render))
    | "p_monthcode" => some (okOr ((Gram.monthCode cs).map (fun (n, l) =>
        "M" ++ (if n < 10 then "0" else "") ++ toString n ++ (if l then "L" else ""))))
    | _ => none
  | _ => none

end Driver
