import Driver.Util
import TemporalModel.Model.Prim
namespace Driver
open TemporalModel

/-- Surface-sweep lines (`sw_*`): the functions called are not modelled; the only thing the property C03 says about
    them is that the outcome is `Safe` (a value or a Type/Range/Syntax/generic error).  The harness reduces the
    implementation's outcome to `safe` / `panic@<site>` / `assert:<call>`; the expected outcome is always `safe`. -/
def handleC03 (toks : List String) : Option String :=
  match toks with
  | op :: _ =>
    if op.startsWith "sw_" then some "safe"
    -- C19 differential lines: a thin wrapper returns exactly what the method it wraps returns
    else if op.startsWith "w19_" || op.startsWith "w20_" then some "ok same"
    else none
  | _ => none

end Driver
