import Driver.Util
import TemporalModel.Model.EpochConv
import Driver.C09
import Driver.C17
import TemporalModel.Model.PlainDateBasic
import TemporalModel.Model.Partial
import TemporalModel.Model.Format
namespace Driver
open TemporalModel

/-- `new` constrains, `try_new` rejects -/
def ctorKind? : String → Option Overflow
  | "new" => some .constrain | "try_new" => some .reject | _ => none

def dt9? (ss : List String) : Option (Out IsoDateTime) := do
  let f ← ints? ss
  match f with
  | [y, m, d, h, mi, s, ms, us, ns] =>
    some (do let dd ← IsoDate.newWithOverflow y m d .reject
             let t ← isoTimeNew h mi s ms us ns .reject
             IsoDateTime.new dd t)
  | _ => none

def time6? (ss : List String) : Option (Out IsoTime) := do
  let f ← ints? ss
  match f with
  | [h, mi, s, ms, us, ns] => some (isoTimeNew h mi s ms us ns .reject)
  | _ => none

def offsetId (m : Int) : String := String.ofList (Fmt.offsetMinutes m)

def optInts? (ss : List String) : Option (List (Option Int)) := ss.mapM optInt?

def b01 (b : Bool) : String := if b then "1" else "0"

def handleApi (toks : List String) : Option String :=
  match toks with
  | ["en_i128", v] => do
    let v ← int? v
    some ((enFromI128 v).render toString)
  | ["en_u128", v] => do
    let v ← int? v
    if v < 0 then none else some ((enFromU128 v).render toString)
  | ["en_f64", v] =>
    if v == "nan" || v == "inf" || v == "-inf" then some "err range"
    else do
      let v ← int? v
      some ((enFromF64 v).render toString)
  | ["pd_ctor", y, m, d, k] => do
    let y ← int? y; let m ← int? m; let d ← int? d; let ov ← ctorKind? k
    some ((IsoDate.newWithOverflow y m d ov).render IsoDate.render)
  | ["pt_ctor", h, mi, s, ms, us, ns, k] => do
    let f ← ints? [h, mi, s, ms, us, ns]; let ov ← ctorKind? k
    match f with
    | [h, mi, s, ms, us, ns] => some ((isoTimeNew h mi s ms us ns ov).render IsoTime.render)
    | _ => none
  | ["pdt_ctor", y, m, d, h, mi, s, ms, us, ns, k] => do
    let f ← ints? [y, m, d, h, mi, s, ms, us, ns]; let ov ← ctorKind? k
    match f with
    | [y, m, d, h, mi, s, ms, us, ns] =>
      some ((do let dd ← IsoDate.newWithOverflow y m d ov
                let t ← isoTimeNew h mi s ms us ns ov
                IsoDateTime.new dd t : Out IsoDateTime).render IsoDateTime.render)
    | _ => none
  | "pdt_with_time" :: rest => do
    let dt ← dt9? (rest.take 9); let t ← time6? (rest.drop 9)
    -- `with_time`: a new date-time from the receiver's date and the given time, range-checked
    some ((do let dt ← dt; let t ← t; IsoDateTime.new dt.date t : Out IsoDateTime).render IsoDateTime.render)
  | "pdt_info" :: rest => do
    let dt ← dt9? rest
    some ((dt.map (fun dt =>
      let i := dateInfo dt.date
      s!"{i.dayOfWeek} {i.dayOfYear} {i.weekOfYear} {i.yearOfWeek} 7 {i.daysInMonth} {i.daysInYear} 12 {b01 i.inLeapYear} | {dt.date.render} | {dt.time.render}")).render id)
  | "pd_to_pdt" :: y :: m :: d :: rest => do
    let y ← int? y; let m ← int? m; let d ← int? d
    let t : Out IsoTime ← (if rest == ["-"] then some (.ok ⟨0, 0, 0, 0, 0, 0⟩) else time6? rest)
    some ((do let dd ← plainDateTryNew y m d; let t ← t; IsoDateTime.new dd t : Out IsoDateTime).render IsoDateTime.render)
  | "pdt_from_dat" :: y :: m :: d :: rest => do
    let y ← int? y; let m ← int? m; let d ← int? d
    let t ← time6? rest
    some ((do let dd ← plainDateTryNew y m d; let t ← t; IsoDateTime.new dd t : Out IsoDateTime).render IsoDateTime.render)
  | ["pdt_from_pd", y, m, d] => do
    let y ← int? y; let m ← int? m; let d ← int? d
    -- `From<PlainDate>`: midnight of the date, unchecked; `valid` = the checked constructor accepts the value
    some ((plainDateTryNew y m d).render (fun dd =>
      let t : IsoTime := ⟨0, 0, 0, 0, 0, 0⟩
      s!"{(IsoDateTime.mk dd t).render} valid={b01 (isoDtWithinValidLimits dd t)}"))
  | ["pdt_from_pd_spec", y, m, d] => do
    let y ← int? y; let m ← int? m; let d ← int? d
    -- C02: every produced value is inside the range
    some ((plainDateTryNew y m d).render (fun dd => s!"{(IsoDateTime.mk dd ⟨0, 0, 0, 0, 0, 0⟩).render} valid=1"))
  | "pd_from_pdt" :: rest => do
    let dt ← dt9? rest
    some ((dt.map (fun dt => s!"{dt.date.render} valid={b01 ((plainDateTryNew dt.date.year dt.date.month dt.date.day).isOk)}")).render id)
  | ["ym_info", y, m] => do
    let y ← int? y; let m ← int? m
    some ((yearMonthNew y m none .reject).render (fun r =>
      s!"{b01 (Greg.isLeap r.year)} {Greg.diy r.year} {Greg.dim r.year r.month} 12 {String.ofList (Fmt.year r.year)}"))
  | ["md_code", m, d] => do
    let m ← int? m; let d ← int? d
    some ((monthDayNew m d .reject none).render (fun r => (MonthCode.mk r.month.toNat false).render))
  | ["in_to_zdt", ns, off] => do
    let ns ← int? ns; let off ← int? off
    some ((instantTryNew ns).render (fun n => s!"{n} {offsetId off} iso8601"))
  | ["zdt_misc", ns, off, cal] => do
    let ns ← int? ns; let off ← int? off
    some ((instantTryNew ns).render (fun n =>
      s!"{n} {cal} {offsetId off} | {n} UTC | {n} | {instantEpochMs n}"))
  | "du_partial" :: rest => do
    let f ← optInts? rest
    if f.length ≠ 10 then none else
    if f.all (·.isNone) then some "err type" else
    match f.map (·.getD 0) with
    | [a, b, c, d, e, g, h, i, j, k] => some ((Dur.new ⟨a, b, c, d, e, g, h, i, j, k⟩).render (fun x => x.render ++ " empty=0"))
    | _ => none
  | ["td_new", h, mi, s, ms, us, ns] => do
    let f ← ints? [h, mi, s, ms, us, ns]
    match f with
    | [h, mi, s, ms, us, ns] =>
      some ((Dur.new ⟨0, 0, 0, 0, h, mi, s, ms, us, ns⟩).render (fun x => s!"{x.hours} {x.minutes} {x.seconds} {x.milliseconds} {x.microseconds} {x.nanoseconds}"))
    | _ => none
  | _ => none

end Driver
