import Driver.Util
import Driver.C10
import TemporalModel.Model.TimeOps
namespace Driver
open TemporalModel

def dur? (ss : List String) : Option Dur := do
  let f ← ints? ss
  match f with
  | [a, b, c, d, e, g, h, i, j, k] => some ⟨a, b, c, d, e, g, h, i, j, k⟩
  | _ => none

def time? (ss : List String) : Option (Out IsoTime) := do
  let f ← ints? ss
  match f with
  | [h, mi, s, ms, us, ns] => some (plainTimeTryNew h mi s ms us ns)
  | _ => none

def handleC09 (toks : List String) : Option String :=
  match toks with
  | "du_new" :: rest => do let d ← dur? rest; some ((Dur.new d).render Dur.render)
  | "du_neg" :: rest => do let d ← dur? rest; some ((Dur.new d).map Dur.negated |>.render Dur.render)
  | "du_abs" :: rest => do let d ← dur? rest; some ((Dur.new d).map Dur.abs |>.render Dur.render)
  | "du_sign" :: rest => do let d ← dur? rest; some ((Dur.new d).map Dur.sign |>.render toString)
  | "du_add" :: rest => do
      let a ← dur? (rest.take 10); let b ← dur? (rest.drop 10)
      some ((do let a ← Dur.new a; let b ← Dur.new b; a.add b : Out Dur).render Dur.render)
  | "du_sub" :: rest => do
      let a ← dur? (rest.take 10); let b ← dur? (rest.drop 10)
      some ((do let a ← Dur.new a; let b ← Dur.new b; a.subtract b : Out Dur).render Dur.render)
  | "du_cmp" :: rest => do
      let a ← dur? (rest.take 10); let b ← dur? (rest.drop 10)
      some ((do let a ← Dur.new a; let b ← Dur.new b; a.compareNoRel b : Out Int).render toString)
  | "du_round" :: rest => do
      let a ← dur? (rest.take 10)
      match rest.drop 10 with
      | [l, s, inc, m] =>
        let o ← rawOptions l s inc m
        some ((do let a ← Dur.new a; let o ← o; a.roundNoRel o : Out Dur).render Dur.render)
      | _ => none
  | "du_total" :: rest => do
      let a ← dur? (rest.take 10)
      match rest.drop 10 with
      | [u] => do
        let u ← unit? u
        some ((do let a ← Dur.new a; a.totalNoRel u : Out F64.Dyadic).render F64.Dyadic.render)
      | _ => none
  | "pt_add" :: rest => do
      let t ← time? (rest.take 6); let d ← dur? (rest.drop 6)
      some ((do let t ← t; let d ← Dur.new d; plainTimeAdd t d : Out IsoTime).render IsoTime.render)
  | "pt_sub" :: rest => do
      let t ← time? (rest.take 6); let d ← dur? (rest.drop 6)
      some ((do let t ← t; let d ← Dur.new d; plainTimeSubtract t d : Out IsoTime).render IsoTime.render)
  | op :: rest =>
    if op == "pt_until" || op == "pt_since" then do
      let a ← time? (rest.take 6); let b ← time? ((rest.drop 6).take 6)
      match rest.drop 12 with
      | [l, s, inc, m] =>
        let o ← rawOptions l s inc m
        some ((do let a ← a; let b ← b; let o ← o; plainTimeDiff (op == "pt_since") a b o : Out Dur).render Dur.render)
      | _ => none
    else if op == "in_add" || op == "in_sub" then do
      match rest with
      | ns :: ds => do
        let ns ← int? ns; let d ← dur? ds
        some ((do let n ← instantTryNew ns; let d ← Dur.new d
                  if op == "in_add" then instantAdd n d else instantSubtract n d : Out Int).render toString)
      | _ => none
    else if op == "in_until" || op == "in_since" then
      match rest with
      | [a, b, l, s, inc, m] => do
        let a ← int? a; let b ← int? b
        let o ← rawOptions l s inc m
        some ((do let a ← instantTryNew a; let b ← instantTryNew b; let o ← o
                  instantDiff (op == "in_since") a b o : Out Dur).render Dur.render)
      | _ => none
    else if op == "in_ms" then
      match rest with
      | [ns] => do let ns ← int? ns; some ((instantTryNew ns).map instantEpochMs |>.render toString)
      | _ => none
    else if op == "in_from_ms" then
      match rest with
      | [ms] => do
        let ms ← int? ms
        -- the harness casts to i64 first
        some ((instantFromEpochMs ms).render toString)
      | _ => none
    else none
  | _ => none

end Driver
