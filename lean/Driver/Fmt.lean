import Driver.Util
import Driver.C10
import Driver.C05
import Driver.Zone
import TemporalModel.Model.FormatOps
import TemporalModel.Model.Partial
namespace Driver
open TemporalModel

def showCal? : String → Option Fmt.ShowCal
  | "auto" => some .auto | "always" => some .always | "never" => some .never | "critical" => some .critical
  | _ => none

def str (o : Out (List Char)) : String := o.render String.ofList

def handleFmt (toks : List String) : Option String :=
  match toks with
  | ["f_date", y, m, d, cal, sh] => do
    let y ← int? y; let m ← int? m; let d ← int? d; let sh ← showCal? sh
    some (str (do let dd ← plainDateTryNew y m d; pure (Fmt.plainDate dd cal sh)))
  | ["f_time", h, mi, s, ms, us, ns, p, su, mo] => do
    let f ← ints? [h, mi, s, ms, us, ns]
    let p ← precision? p; let su ← optUnit? su; let mo ← optMode? mo
    match f with
    | [h, mi, s, ms, us, ns] => some (str (do let t ← plainTimeTryNew h mi s ms us ns; plainTimeToString t p su mo))
    | _ => none
  | "f_dt" :: rest => do
    let a ← dt? (rest.take 9)
    match rest.drop 9 with
    | [p, su, mo, cal, sh] => do
      let p ← precision? p; let su ← optUnit? su; let mo ← optMode? mo; let sh ← showCal? sh
      some (str (do let a ← a; plainDateTimeToString a p su mo cal sh))
    | _ => none
  | ["f_ym", y, m, rd, cal, sh] => do
    let y ← int? y; let m ← int? m; let rd ← int? rd; let sh ← showCal? sh
    some (str (do let r ← yearMonthNew y m (some rd) .reject; pure (Fmt.yearMonth r cal sh)))
  | ["f_md", m, d, ry, cal, sh] => do
    let m ← int? m; let d ← int? d; let ry ← int? ry; let sh ← showCal? sh
    some (str (do let r ← monthDayNew m d .reject (some ry); pure (Fmt.monthDay r cal sh)))
  | ["f_inst", ns, off, p, su, mo] => do
    let ns ← int? ns; let off ← optInt? off
    let p ← precision? p; let su ← optUnit? su; let mo ← optMode? mo
    some (str (do let ns ← instantTryNew ns; instantToString ns off p su mo))
  | ["f_zdt", ns, off, dof, dtz, p, su, mo, cal, sh] => do
    let ns ← int? ns; let off ← int? off
    let p ← precision? p; let su ← optUnit? su; let mo ← optMode? mo; let sh ← showCal? sh
    let showOff := dof != "never"
    let tzShow : Option Bool := if dtz == "never" then none else some (dtz == "critical")
    some (str (do let ns ← instantTryNew ns; zonedToString ns off showOff tzShow p su mo cal sh))
  | ["f_zdts", ns, zone, dof, dtz, p, su, mo] => do
    let ns ← int? ns; let tz ← zone? zone
    let p ← precision? p; let su ← optUnit? su; let mo ← optMode? mo
    let showOff := dof != "never"
    let tzShow : Option Bool := if dtz == "never" then none else some (dtz == "critical")
    let id : List Char := match tz with
      | .named _ => "Syn/Zone".toList
      | .offset m => Fmt.offsetMinutes m
    some (str (do let ns ← instantTryNew ns; zonedToStringTz ns tz id showOff tzShow p su mo "iso8601" .auto))
  | ["rt_zdts", ns, _] => do
    let ns ← int? ns
    some ((do let _ ← instantTryNew ns; pure (1 : Int) : Out Int).render toString)
  | "f_dur" :: rest => do
    let d ← dur? (rest.take 10)
    match rest.drop 10 with
    | [p, su, mo] => do
      let p ← precision? p; let su ← optUnit? su; let mo ← optMode? mo
      some (str (do let d ← Dur.new d; durationToString d p su mo))
    | _ => none
  -- round-trip laws evaluated on the implementation: the property's answer is "holds" whenever the value exists
  | "rt_date" :: y :: m :: d :: _ => do
    let y ← int? y; let m ← int? m; let d ← int? d
    some ((do let _ ← plainDateTryNew y m d; pure (1 : Int) : Out Int).render toString)
  | "rt_time" :: rest => do
    let f ← ints? rest
    match f with
    | [h, mi, s, ms, us, ns] => some ((do let _ ← plainTimeTryNew h mi s ms us ns; pure (1 : Int) : Out Int).render toString)
    | _ => none
  | "rt_dt" :: rest => do
    let a ← dt? (rest.take 9)
    some ((do let _ ← a; pure (1 : Int) : Out Int).render toString)
  | ["rt_ym", y, m, _] => do
    let y ← int? y; let m ← int? m
    some ((do let _ ← yearMonthNew y m none .reject; pure (1 : Int) : Out Int).render toString)
  | ["rt_md", m, d, _] => do
    let m ← int? m; let d ← int? d
    some ((do let _ ← monthDayNew m d .reject none; pure (1 : Int) : Out Int).render toString)
  | ["rt_insto", ns, _] => do
    -- written with a numeric offset (below the limits: whenever the instant exists) and read back: the same instant
    let ns ← int? ns
    some ((do let _ ← instantTryNew ns; pure (1 : Int) : Out Int).render toString)
  | ["rt_inst", ns] => do
    let ns ← int? ns
    some ((do let _ ← instantTryNew ns; pure (1 : Int) : Out Int).render toString)
  | ["rt_zdt", ns, _, _] => do
    let ns ← int? ns
    some ((do let _ ← instantTryNew ns; pure (1 : Int) : Out Int).render toString)
  | "rt_dur" :: rest => do
    let d ← dur? rest
    some ((do let _ ← Dur.new d; pure (1 : Int) : Out Int).render toString)
  | "rt_enum" :: _ => some "ok 1"
  | "rt_monthcode" :: _ => some "ok 1"
  | "rt_offset" :: _ => some "ok 1"
  | "rt_zone" :: _ => some "ok 1"
  | "rt_cal" :: _ => some "ok 1"
  | _ => none

end Driver
