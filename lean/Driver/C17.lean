import Driver.Util
import Driver.C05
import TemporalModel.Model.Partial
import TemporalModel.Model.Relative
namespace Driver
open TemporalModel

def monthCode? (s : String) : Option (Option (Out MonthCode)) :=
  if s == "-" then some none else
  -- `MonthCode::try_from_utf8`: 3..4 bytes, 'M', two digits, optional 'L'
  let cs := s.toList
  let bad : Option (Option (Out MonthCode)) := some (some (.err .range))
  match cs with
  | ['M', a, b] => if a.isDigit ∧ b.isDigit then some (some (.ok ⟨(a.toNat - 48) * 10 + (b.toNat - 48), false⟩)) else bad
  | ['M', a, b, 'L'] => if a.isDigit ∧ b.isDigit then some (some (.ok ⟨(a.toNat - 48) * 10 + (b.toNat - 48), true⟩)) else bad
  | _ => bad

/-- tokens: year month mcode day era eraYear -/
def partialDate? (ss : List String) : Option (Out PartialDate) :=
  match ss with
  | [y, m, c, d, era, ey] => do
    let y ← optInt? y; let m ← optInt? m; let c ← monthCode? c; let d ← optInt? d; let ey ← optInt? ey
    match c with
    | some (.err k) => some (.err k)
    | some .panic => some .panic
    | some (.ok c) => some (.ok ⟨y, m, some c, d, era != "-", ey⟩)
    | none => some (.ok ⟨y, m, none, d, era != "-", ey⟩)
  | _ => none

def partialTime? (ss : List String) : Option PartialTime :=
  match ss with
  | [h, mi, s, ms, us, ns] => do
    let h ← optInt? h; let mi ← optInt? mi; let s ← optInt? s; let ms ← optInt? ms; let us ← optInt? us
    let ns ← optInt? ns
    some ⟨h, mi, s, ms, us, ns⟩
  | _ => none

def optOverflow? (s : String) : Option (Option Overflow) :=
  if s == "-" then some none else (Overflow.ofName? s).map some

def ym? (ss : List String) : Option (Out IsoDate) :=
  match ss with
  | [y, m, r] => do
    let y ← int? y; let m ← int? m; let r ← optInt? r
    some (yearMonthNew y m r .reject)
  | _ => none

/-- A tiny reader for the year-month / month-day strings the C18 generator emits (the full grammar is C12):
    `[+-]Y…-MM[-DD][T…][[u-ca=…]]`, `YYYYMM`, `MM-DD`, `--MM-DD`. Returns (year?, month, day?). -/
def splitSimpleDate (s : String) : Option (Option Int × Int × Option Int) :=
  let s := (s.splitOn "[").head!
  let s := (s.splitOn "T").head!
  let neg := s.startsWith "-" && !(s.startsWith "--")
  let body := if s.startsWith "+" || neg then s.drop 1 else s
  let body := body.toString
  if s.startsWith "--" then
    match (s.drop 2).toString.splitOn "-" with
    | [m, d] => do let m ← m.toNat?; let d ← d.toNat?; some (none, (m : Int), some (d : Int))
    | _ => none
  else
  match body.splitOn "-" with
  | [y, m, d] => do
    let yv ← y.toNat?; let m ← m.toNat?; let d ← d.toNat?
    some (some (if neg then -(yv : Int) else yv), (m : Int), some (d : Int))
  | [a, b] =>
    if a.length ≤ 2 then do let m ← a.toNat?; let d ← b.toNat?; some (none, (m : Int), some (d : Int))
    else do let yv ← a.toNat?; let m ← b.toNat?; some (some (if neg then -(yv : Int) else yv), (m : Int), none)
  | [a] =>
    let signed := s.startsWith "+" || neg
    if a.length = 6 ∧ !signed then do
      let yv ← (a.take 4).toString.toNat?; let m ← (a.drop 4).toString.toNat?
      some (some (yv : Int), (m : Int), none)
    else if a.length = 8 ∧ signed then do
      let yv ← (a.take 6).toString.toNat?; let m ← (a.drop 6).toString.toNat?
      some (some (if neg then -(yv : Int) else yv), (m : Int), none)
    else none
  | _ => none

def handleC17 (toks : List String) : Option String :=
  match toks with
  | op :: rest =>
    if op == "pd_fromp" then do
      let p ← partialDate? (rest.take 6)
      match rest.drop 6 with
      | [ov] => do let ov ← optOverflow? ov
                   some ((do let p ← p; plainDateFromPartial p ov : Out IsoDate).render IsoDate.render)
      | _ => none
    else if op == "pd_with" then do
      let r ← date? (rest.take 3); let p ← partialDate? ((rest.drop 3).take 6)
      match rest.drop 9 with
      | [ov] => do let ov ← optOverflow? ov
                   some ((do let r ← r; let p ← p; plainDateWith r p ov : Out IsoDate).render IsoDate.render)
      | _ => none
    else if op == "pt_fromp" then do
      let p ← partialTime? (rest.take 6)
      match rest.drop 6 with
      | [ov] => do let ov ← optOverflow? ov; some ((plainTimeFromPartial p ov).render IsoTime.render)
      | _ => none
    else if op == "pt_with" then do
      let r ← time? (rest.take 6); let p ← partialTime? ((rest.drop 6).take 6)
      match rest.drop 12 with
      | [ov] => do let ov ← optOverflow? ov
                   some ((do let r ← r; plainTimeWith r p ov : Out IsoTime).render IsoTime.render)
      | _ => none
    else if op == "pdt_fromp" then do
      let pd ← partialDate? (rest.take 6); let pt ← partialTime? ((rest.drop 6).take 6)
      match rest.drop 12 with
      | [ov] => do let ov ← optOverflow? ov
                   some ((do let pd ← pd; plainDateTimeFromPartial pd pt ov : Out IsoDateTime).render IsoDateTime.render)
      | _ => none
    else if op == "pdt_with" then do
      let r ← dt? (rest.take 9); let pd ← partialDate? ((rest.drop 9).take 6); let pt ← partialTime? ((rest.drop 15).take 6)
      match rest.drop 21 with
      | [ov] => do let ov ← optOverflow? ov
                   some ((do let r ← r; let pd ← pd; plainDateTimeWith r pd pt ov : Out IsoDateTime).render IsoDateTime.render)
      | _ => none
    else if op == "pd_new" then
      match rest with
      | [y, m, d, ov] => do
        let y ← int? y; let m ← int? m; let d ← int? d; let ov ← overflow? ov
        some ((IsoDate.newWithOverflow y m d ov).render IsoDate.render)
      | _ => none
    else if op == "pt_new" then
      match rest with
      | [h, mi, s, ms, us, ns, ov] => do
        let f ← ints? [h, mi, s, ms, us, ns]; let ov ← overflow? ov
        match f with
        | [h, mi, s, ms, us, ns] => some ((isoTimeNew h mi s ms us ns ov).render IsoTime.render)
        | _ => none
      | _ => none
    else if op == "pdt_new" then
      match rest with
      | [y, m, d, h, mi, s, ms, us, ns, ov] => do
        let f ← ints? [y, m, d, h, mi, s, ms, us, ns]; let ov ← overflow? ov
        match f with
        | [y, m, d, h, mi, s, ms, us, ns] =>
          some ((do let dd ← IsoDate.newWithOverflow y m d ov
                    let t ← isoTimeNew h mi s ms us ns ov
                    IsoDateTime.new dd t : Out IsoDateTime).render IsoDateTime.render)
        | _ => none
      | _ => none
    -- ---- C18 ----
    else if op == "ym_new" then
      match rest with
      | [y, m, r, ov] => do
        let y ← int? y; let m ← int? m; let r ← optInt? r; let ov ← overflow? ov
        some ((yearMonthNew y m r ov).render IsoDate.render)
      | _ => none
    else if op == "ym_fromp" then do
      let p ← partialDate? (rest.take 6)
      match rest.drop 6 with
      | [ov] => do let ov ← overflow? ov
                   some ((do let p ← p; yearMonthFromPartial p ov : Out IsoDate).render IsoDate.render)
      | _ => none
    else if op == "md_fromp" then do
      let p ← partialDate? (rest.take 6)
      match rest.drop 6 with
      | [ov] => do let ov ← overflow? ov
                   some ((do let p ← p; monthDayFromPartial p ov : Out IsoDate).render IsoDate.render)
      | _ => none
    else if op == "ym_with" then do
      let r ← ym? (rest.take 3); let p ← partialDate? ((rest.drop 3).take 6)
      match rest.drop 9 with
      | [ov] => do let ov ← optOverflow? ov
                   some ((do let r ← r; let p ← p; yearMonthWith r p ov : Out IsoDate).render IsoDate.render)
      | _ => none
    else if op == "ym_parse" then
      match rest with
      | [s] => do
        let (y, m, _) ← splitSimpleDate s
        let y ← y
        -- FromStr: limits on (year, month), then fields → constrain (canonical day 1)
        some ((if yearMonthWithinLimits y m then
                 (do let p ← partialOfYearMonth ⟨y, m, 1⟩; yearMonthFromPartial p .constrain)
               else .err .range : Out IsoDate).render IsoDate.render)
      | _ => none
    else if op == "md_parse" then
      match rest with
      | [s] => do
        let (y, m, d) ← splitSimpleDate s
        let d ← d
        -- a complete date string must itself be a valid date (in its own year) before the month-day is taken
        let dateOk : Out Unit := match y with
          | none => .ok ()
          | some y => do let v ← isValidDate y m d; if v then pure () else .err .range
        some ((do dateOk; monthDayNew m d .reject none : Out IsoDate).render IsoDate.render)
      | _ => none
    else if op == "md_new" then
      match rest with
      | [m, d, ov, ry] => do
        let m ← int? m; let d ← int? d; let ov ← overflow? ov; let ry ← optInt? ry
        some ((monthDayNew m d ov ry).render IsoDate.render)
      | _ => none
    else if op == "pd_to_ym" then do
      let r ← date? rest
      some ((do let r ← r; dateToYearMonth r : Out IsoDate).render IsoDate.render)
    else if op == "pd_to_md" then do
      let r ← date? rest
      some ((do let r ← r; dateToMonthDay r : Out IsoDate).render IsoDate.render)
    else if op == "ym_add" || op == "ym_sub" then do
      let r ← ym? (rest.take 3); let d ← dur? ((rest.drop 3).take 10)
      match rest.drop 13 with
      | [ov] => do
        let ov ← overflow? ov
        some ((do let r ← r; let d ← Dur.new d
                  if op == "ym_add" then yearMonthAdd r d ov else yearMonthSubtract r d ov : Out IsoDate).render IsoDate.render)
      | _ => none
    else if op == "ym_until" || op == "ym_since" then do
      let a ← ym? (rest.take 3); let b ← ym? ((rest.drop 3).take 3)
      match rest.drop 6 with
      | [l, s, inc, m] => do
        let o ← rawOptions l s inc m
        match a, b, o with
        | .ok a, .ok b, .ok o =>
          some ((yearMonthDiffFull (op == "ym_since") a b o).render Dur.render)
        | .ok _, .ok _, .err k => some ("err " ++ k.name)
        | .ok _, .err k, _ => some ("err " ++ k.name)
        | .err k, _, _ => some ("err " ++ k.name)
        | _, _, _ => some "panic"
      | _ => none
    else if op == "ym_cmp" then do
      let a ← ym? (rest.take 3); let b ← ym? ((rest.drop 3).take 3)
      some ((do let a ← a; let b ← b; pure (a.cmp b) : Out Int).render toString)
    else none
  | _ => none

end Driver
