import Driver.Util
import TemporalModel.Model.IsoTime
namespace Driver
open TemporalModel

def group? : String → Option UnitGroup
  | "date" => some .date | "time" => some .time | "datetime" => some .dateTime | _ => none

/-- `-` or an integer; integers outside 1..10^9 fail in `RoundingIncrement::try_new`. -/
def rawOptions (l s inc m : String) : Option (Out RawOptions) := do
  let l ← optUnit? l; let s ← optUnit? s; let m ← optMode? m
  let inc ← optInt? inc
  match inc with
  | none => some (.ok ⟨l, s, none, m⟩)
  | some i => some (do let i ← incrementTryNew i; pure ⟨l, s, some i, m⟩)

def precision? (s : String) : Option Precision :=
  if s == "auto" then some .auto else if s == "minute" then some .minute else (s.toNat?).map .digit

def okOnly {α} (o : Out α) : String := (o.map (fun _ => ())).render (fun _ => "") |>.trimAscii.toString

/-- Parameters each public operation passes to the resolver (src/builtins/core/*.rs). -/
def pubDiff : String → Option (UnitGroup × TUnit × TUnit × Bool)
  | "pd_until" => some (.date, .day, .day, false) | "pd_since" => some (.date, .day, .day, true)
  | "pt_until" => some (.time, .hour, .nanosecond, false) | "pt_since" => some (.time, .hour, .nanosecond, true)
  | "pdt_until" => some (.dateTime, .day, .nanosecond, false) | "pdt_since" => some (.dateTime, .day, .nanosecond, true)
  | "in_until" => some (.time, .second, .nanosecond, false) | "in_since" => some (.time, .second, .nanosecond, true)
  | "zdt_until" => some (.dateTime, .hour, .nanosecond, false) | "zdt_since" => some (.dateTime, .hour, .nanosecond, true)
  | "ym_until" => some (.date, .year, .month, false) | "ym_since" => some (.date, .year, .month, true)
  | _ => none

def handleC10 : Handler
  | ["opt_diff", g, fl, fs, since, l, s, inc, m] => do
      let g ← group? g; let fl ← unit? fl; let fs ← unit? fs
      let o ← rawOptions l s inc m
      some ((o >>= fun o => fromDiffSettings o (since == "1") g fl fs).render Resolved.render)
  | ["opt_dur", ex, l, s, inc, m] => do
      let ex ← unit? ex; let o ← rawOptions l s inc m
      some ((o >>= fun o => fromDurationOptions o ex).render Resolved.render)
  | ["opt_dt", l, s, inc, m] => do
      let o ← rawOptions l s inc m
      some ((o >>= fromDatetimeOptions).render Resolved.render)
  | ["opt_inst", l, s, inc, m] => do
      let o ← rawOptions l s inc m
      some ((o >>= fromInstantOptions).render Resolved.render)
  | ["opt_str", p, s, m] => do
      let p ← precision? p; let s ← optUnit? s; let m ← optMode? m
      some ((toStringResolve p s m).render ResolvedToString.render)
  | [pubop, op, l, s, inc, m] => do
      -- `optpubeq`: the same options with degenerate operands; acceptance does not depend on the operands
      if pubop != "optpub" ∧ pubop != "optpubeq" then none else
      let o ← rawOptions l s inc m
      match pubDiff op with
      | some (g, fl, fs, since) =>
        let r : Out Resolved := o >>= fun o =>
          -- PlainYearMonth::diff rejects week/day before resolving
          if op.startsWith "ym_" ∧ (o.largest = some .week ∨ o.largest = some .day ∨ o.smallest = some .week ∨ o.smallest = some .day)
          then .err .range else fromDiffSettings o since g fl fs
        some (okOnly r)
      | none =>
        match op with
        | "du_round" => some (okOnly (o >>= fun o => fromDurationOptions o .year))
        | "pdt_round" => some (okOnly (o >>= fromDatetimeOptions))
        | "in_round" => some (okOnly (o >>= fromInstantOptions))
        | "pt_round" =>
          -- PlainTime::round(smallest_unit: Unit, Option<f64>, Option<mode>): harness maps an absent unit to a RangeError
          let su ← optUnit? s; let i ← optInt? inc; let md ← optMode? m
          match su with
          | none => some "err range"
          | some u => some (okOnly (plainTimeRound ⟨1, 2, 3, 4, 5, 6⟩ u (i.getD 1) md))
        | _ => none
  | ["optstr", ty, p, s, m] => do
      let p ← precision? p; let s ← optUnit? s; let m ← optMode? m
      if ty == "du" ∧ (s = some .hour ∨ s = some .minute) then some "err range" else
      some (okOnly (toStringResolve p s m))
  | _ => none

end Driver
