import Driver.Util
import Driver.C17
import TemporalModel.Model.Relative
namespace Driver
open TemporalModel

def handleC08 (toks : List String) : Option String :=
  match toks with
  | op :: rest =>
    if op == "du_round_rel" then do
      let d ← dur? (rest.take 10)
      match rest.drop 10 with
      | [l, s, inc, m, y, mo, dd] => do
        let o ← rawOptions l s inc m
        let rel ← date? [y, mo, dd]
        some ((do let d ← Dur.new d; let rel ← rel; let o ← o; d.roundRelPlainDate o rel : Out Dur).render Dur.render)
      | _ => none
    else if op == "du_total_rel" then do
      let d ← dur? (rest.take 10)
      match rest.drop 10 with
      | [u, y, mo, dd] => do
        let u ← unit? u
        let rel ← date? [y, mo, dd]
        some ((do let d ← Dur.new d; let rel ← rel; d.totalRelPlainDate u rel : Out F64.Dyadic).render F64.Dyadic.render)
      | _ => none
    else if op == "du_cmp_rel" then do
      let a ← dur? (rest.take 10); let b ← dur? ((rest.drop 10).take 10)
      let rel ← date? (rest.drop 20)
      some ((do let a ← Dur.new a; let b ← Dur.new b; let rel ← rel; a.compareRelPlainDate b rel : Out Int).render toString)
    else none
  | _ => none

end Driver
