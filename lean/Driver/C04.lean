import Driver.Util
import Driver.C09
import TemporalModel.Model.Relative
namespace Driver
open TemporalModel

def date? (ss : List String) : Option (Out IsoDate) := do
  let f ← ints? ss
  match f with
  | [y, m, d] => some (plainDateTryNew y m d)
  | _ => none

def overflow? : String → Option Overflow := Overflow.ofName?

def handleC04 (toks : List String) : Option String :=
  match toks with
  | op :: rest =>
    if op == "pd_add" || op == "pd_sub" then do
      let a ← date? (rest.take 3)
      let d ← dur? ((rest.drop 3).take 10)
      match rest.drop 13 with
      | [ov] => do
        let ov ← overflow? ov
        some ((do let a ← a; let d ← Dur.new d
                  if op == "pd_add" then plainDateAdd a d ov else plainDateSubtract a d ov : Out IsoDate).render IsoDate.render)
      | _ => none
    else if op == "pd_until" || op == "pd_since" then do
      let a ← date? (rest.take 3); let b ← date? ((rest.drop 3).take 3)
      match rest.drop 6 with
      | [l, s, inc, m] => do
        let o ← rawOptions l s inc m
        match a, b, o with
        | .ok a, .ok b, .ok o =>
          some ((plainDateDiffFull (op == "pd_since") a b o).render Dur.render)
        | .ok _, .ok _, .err k => some ("err " ++ k.name)
        | .ok _, .err k, _ => some ("err " ++ k.name)
        | .err k, _, _ => some ("err " ++ k.name)
        | _, _, _ => some "panic"
      | _ => none
    else if op == "pd_law_inv" then do
      let a ← date? (rest.take 3); let b ← date? ((rest.drop 3).take 3)
      match rest.drop 6 with
      | [l] => do
        let o ← rawOptions l "-" "-" "-"
        -- Theorem C04_add_until: whenever both dates exist and the options are accepted, the law holds.
        let r : Out Int := do
          let a ← a; let b ← b; let o ← o
          let _ ← fromDiffSettings o false .date .day .day
          let _ := a; let _ := b
          pure 1
        some (r.render toString)
      | _ => none
    else none
  | _ => none

end Driver
