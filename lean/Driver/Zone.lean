import Driver.Util
import Driver.C05
import TemporalModel.Model.Zone
import TemporalModel.Model.RelativeZoned
import TemporalModel.Model.Partial
import TemporalModel.Spec.Zone
namespace Driver
open TemporalModel

/-- `o:<minutes>` | `z:<init>;<T>,<off>;…` -/
def zone? (s : String) : Option TZ :=
  if s.startsWith "o:" then (int? (s.drop 2).toString).map TZ.offset
  else if s.startsWith "z:" then do
    match (s.drop 2).toString.splitOn ";" with
    | [] => none
    | i :: rest => do
      let init ← int? i
      let trans ← (rest.filter (· ≠ "")).mapM (fun x =>
        match x.splitOn "," with
        | [a, b] => do let a ← int? a; let b ← int? b; some (a, b)
        | _ => none)
      some (TZ.named ⟨init, trans⟩)
  else none

def disamb? : String → Option Disamb
  | "compatible" => some .compatible | "earlier" => some .earlier | "later" => some .later | "reject" => some .reject
  | _ => none
def offOpt? : String → Option OffsetOpt
  | "use" => some .use | "prefer" => some .prefer | "ignore" => some .ignore | "reject" => some .reject
  | _ => none

/-- `ZonedDateTime::try_new`: the instant must be a valid epoch-nanosecond value. -/
def zdtNew (ns : Int) : Out Int := TZ.epochNs ns

def optTime? (ss : List String) : Option (Option IsoTime) :=
  match ss with
  | "-" :: _ => some none
  | _ => do
    let f ← ints? ss
    match f with
    | [h, mi, s, ms, us, ns] => some (some ⟨h, mi, s, ms, us, ns⟩)
    | _ => none

def handleZone (toks : List String) : Option String :=
  match toks with
  | "tz_wall" :: z :: [ns] => do
    let tz ← zone? z; let ns ← int? ns
    some ((do
      let ns ← zdtNew ns
      let dt ← tz.isoDateTimeFor ns
      pure s!"{dt.date.year} {dt.date.month} {dt.date.day} {dt.time.hour} {dt.time.minute} {dt.time.second} {dt.time.millisecond} {dt.time.microsecond} {dt.time.nanosecond} {tz.offsetNanosFor ns}" : Out String).render id)
  | "tz_conv" :: z :: [ns] => do
    let tz ← zone? z; let ns ← int? ns
    some ((do
      let ns ← zdtNew ns
      let dt ← tz.isoDateTimeFor ns
      let d := s!"{dt.date.year} {dt.date.month} {dt.date.day}"
      let t := s!"{dt.time.hour} {dt.time.minute} {dt.time.second} {dt.time.millisecond} {dt.time.microsecond} {dt.time.nanosecond}"
      pure s!"{d} | {t} | {d} {t}" : Out String).render id)
  | "tz_inst" :: z :: rest => do
    let tz ← zone? z
    let a ← dt? (rest.take 9)
    match rest.drop 9 with
    | [d] => do
      let d ← disamb? d
      some ((do let a ← a; tz.epochNsFor a d : Out Int).render toString)
    | _ => none
  | "tz_inst_spec" :: z :: rest => do
    -- property-level oracle (Spec/Zone.lean): the instant the reading denotes, or a RangeError
    let tz ← zone? z
    let a ← dt? (rest.take 9)
    match rest.drop 9 with
    | [d] => do
      let d ← disamb? d
      some ((do
        let a ← a
        match tz with
        | .offset m => TZ.epochNs (toUncheckedEpochNanoseconds a.date a.time - m * 60000000000)
        | .named zz => do
          -- CheckISODaysRange: wall-clock dates beyond ±10^8 days from the epoch are RangeErrors
          TZ.validDayRange a.date
          match ZoneSpec.instant zz (toUncheckedEpochNanoseconds a.date a.time) d with
          | some t => TZ.epochNs t
          | none => Out.err .range : Out Int).render toString)
    | _ => none
  | "tz_wall_spec" :: z :: [ns] => do
    -- property-level oracle: the reading of the instant shifted by the offset in force
    let tz ← zone? z; let ns ← int? ns
    some ((do
      let ns ← zdtNew ns
      let off := (match tz with | .offset m => m * 60000000000 | .named zz => ZoneSpec.wall zz ns - ns)
      let dt ← IsoDateTime.fromEpochNanos (ns + off) 0
      pure s!"{dt.date.year} {dt.date.month} {dt.date.day} {dt.time.hour} {dt.time.minute} {dt.time.second} {dt.time.millisecond} {dt.time.microsecond} {dt.time.nanosecond} {off}" : Out String).render id)
  | "tz_sod" :: z :: [y, m, d] => do
    let tz ← zone? z; let y ← int? y; let m ← int? m; let d ← int? d
    some ((do
      let date ← plainDateTryNew y m d
      let e ← tz.startOfDay date
      zdtNew e : Out Int).render toString)
  | "tz_pdat" :: z :: rest => do
    -- PlainDate::to_zoned_date_time(zone, Some(time)): the date, then the combined date-time within limits, then the
    -- `compatible` resolution of that reading (never the start of the day)
    let tz ← zone? z
    let y ← int? (rest.getD 0 ""); let m ← int? (rest.getD 1 ""); let d ← int? (rest.getD 2 "")
    let a ← dt? (rest.take 9)
    if rest.length ≠ 9 then none else
    some ((do
      let _ ← plainDateTryNew y m d
      let a ← a
      let e ← tz.epochNsFor a .compatible
      zdtNew e : Out Int).render toString)
  | "tz_partial" :: z :: y :: m :: d :: rest => do
    let tz ← zone? z; let y ← int? y; let m ← int? m; let d ← int? d
    let time ← optTime? (rest.take 6)
    match rest.drop 6 with
    | [off, dis, oo] => do
      let off ← optInt? off
      -- only whole minutes are expressible in a partial record (floor to the minute, as the harness does)
      let off := off.map (fun ns => ns / 60000000000 * 60000000000)
      let dis ← disamb? dis; let oo ← offOpt? oo
      some ((do
        -- date_from_partial(year, month, day, reject) and IsoTime::with(partial, reject)
        let date ← IsoDate.newWithOverflow y m d .reject
        -- a record of fields always yields a time record: missing fields are midnight; its offset is matched exactly
        let time ← (match time with
          | none => pure IsoTime.midnight
          | some t => isoTimeNew t.hour t.minute t.second t.millisecond t.microsecond t.nanosecond .reject : Out IsoTime)
        interpretOffsetExact date time off tz dis oo : Out Int).render toString)
    | _ => none
  | "tz_str" :: z :: y :: m :: d :: rest => do
    let tz ← zone? z; let y ← int? y; let m ← int? m; let d ← int? d
    let time ← optTime? (rest.take 6)
    match rest.drop 6 with
    | [off, dis, oo] => do
      let dis ← disamb? dis; let oo ← offOpt? oo
      let (isExact, off) ← (if off == "Z" then some (true, none) else do let o ← optInt? off; some (false, o))
      -- a date-only string carries neither a time nor an offset
      let (isExact, off) := if time.isNone then (false, none) else (isExact, off)
      some ((do
        let date ← IsoDate.newWithOverflow y m d .reject
        interpretOffset date time isExact off tz dis oo : Out Int).render toString)
    | _ => none
  | "tz_rel" :: z :: y :: m :: d :: rest => do
    let tz ← zone? z; let y ← int? y; let m ← int? m; let d ← int? d
    let time ← optTime? (rest.take 6)
    match rest.drop 6 with
    | [off, kind, _] => do
      let (isExact, off) ← (if off == "Z" then some (true, none) else do let o ← optInt? off; some (false, o))
      let (isExact, off) := if time.isNone then (false, none) else (isExact, off)
      if kind == "plain" then
        -- no annotation: the date of the string as a plain date (time and offset play no part; `Z` is refused)
        some (if isExact then "err range" else (plainDateTryNew y m d).render (fun r => "plain " ++ r.render))
      else
        some ((do
          let date ← IsoDate.newWithOverflow y m d .constrain
          interpretOffset date time isExact off tz .compatible .reject : Out Int).render (fun n => s!"zoned {n}"))
    | _ => none
  | op :: z :: ns :: rest =>
    if op == "zdt_add" || op == "zdt_sub" then do
      let tz ← zone? z; let ns ← int? ns
      let du ← dur? (rest.take 10)
      match rest.drop 10 with
      | [ov] => do
        let ov ← overflow? ov
        some ((do
          let ns ← zdtNew ns
          let du ← Dur.new du
          zdtAdd tz ns (if op == "zdt_add" then du else du.negated) ov : Out Int).render toString)
      | _ => none
    else if op == "zdt_until2" || op == "zdt_since2" then do
      -- zdt_until2 z1 z2 ns1 ns2 largest smallest inc mode (here `z` = z1, `ns` = z2)
      let tz ← zone? z
      let z2 := ns
      let _ ← zone? z2
      match rest with
      | [a, b, l, s, inc, m] => do
        let a ← int? a; let b ← int? b
        let o ← rawOptions l s inc m
        -- both synthetic zones carry the same identifier; otherwise zones are equal iff their descriptions are
        let same : Bool := z == z2 || (z.startsWith "z:" && z2.startsWith "z:")
        match zdtNew a, zdtNew b, o with
        | .ok a, .ok b, .ok o =>
          some ((zdtDiffFullZ (op == "zdt_since2") tz same a b o).render Dur.render)
        | .ok _, .ok _, .err k => some ("err " ++ k.name)
        | .ok _, .err k, _ => some ("err " ++ k.name)
        | .err k, _, _ => some ("err " ++ k.name)
        | _, _, _ => some "panic"
      | _ => none
    else if op == "zdt_until" || op == "zdt_since" then do
      let tz ← zone? z; let a ← int? ns
      match rest with
      | [b, l, s, inc, m] => do
        let b ← int? b
        let o ← rawOptions l s inc m
        match zdtNew a, zdtNew b, o with
        | .ok a, .ok b, .ok o =>
          some ((zdtDiffFull (op == "zdt_since") tz a b o).render Dur.render)
        | .ok _, .ok _, .err k => some ("err " ++ k.name)
        | .ok _, .err k, _ => some ("err " ++ k.name)
        | .err k, _, _ => some ("err " ++ k.name)
        | _, _, _ => some "panic"
      | _ => none
    else if op == "du_round_z" then do
      -- du_round_z zone ns <10 fields> largest smallest increment mode
      let tz ← zone? z; let ns ← int? ns
      let d ← dur? (rest.take 10)
      match rest.drop 10 with
      | [l, s, inc, m] => do
        let o ← rawOptions l s inc m
        some ((do let d ← Dur.new d; let ns ← zdtNew ns; let o ← o; d.roundRelZoned o tz ns : Out Dur).render Dur.render)
      | _ => none
    else if op == "du_zlaw" || op == "du_zlaw_spec" then do
      -- rounding with a no-op granularity only re-balances: the result leads to the same instant as the original
      let tz ← zone? z; let ns ← int? ns
      let d ← dur? (rest.take 10)
      match rest.drop 10 with
      | [l] => do
        let o ← rawOptions l "-" "-" "-"
        some ((do
          let d ← Dur.new d; let ns ← zdtNew ns; let o ← o
          let r ← d.roundRelZoned o tz ns
          let x ← zdtAdd tz ns r .constrain
          let y ← zdtAdd tz ns d .constrain
          pure (if op == "du_zlaw_spec" then 1 else if x = y then (1 : Int) else 0) : Out Int).render toString)
      | _ => none
    else if op == "du_total_z" then do
      let tz ← zone? z; let ns ← int? ns
      let d ← dur? (rest.take 10)
      match rest.drop 10 with
      | [u] => do
        let u ← unit? u
        some ((do let d ← Dur.new d; let ns ← zdtNew ns; d.totalRelZoned u tz ns : Out F64.Dyadic).render F64.Dyadic.render)
      | _ => none
    else if op == "du_cmp_z" then do
      let tz ← zone? z; let ns ← int? ns
      let a ← dur? (rest.take 10); let b ← dur? ((rest.drop 10).take 10)
      if rest.length ≠ 20 then none else
      some ((do let a ← Dur.new a; let b ← Dur.new b; let ns ← zdtNew ns; a.compareRelZoned b tz ns : Out Int).render toString)
    else if op == "zdt_law" then do
      let tz ← zone? z; let a ← int? ns
      match rest with
      | [b, l] => do
        let b ← int? b
        let o ← rawOptions l "-" "-" "-"
        some ((do
          let a ← zdtNew a; let b ← zdtNew b; let o ← o
          match zdtDiff false tz a b o with
          | none => Out.err .assert
          | some r => do
            let d ← r
            let back ← zdtAdd tz a d .constrain
            pure (if back = b then (1 : Int) else 0) : Out Int).render toString)
      | _ => none
    else if op == "zdt_law_spec" then do
      -- the law itself: whenever `until` succeeds, adding the result to the receiver gives the other instant
      let tz ← zone? z; let a ← int? ns
      match rest with
      | [b, l] => do
        let b ← int? b
        let o ← rawOptions l "-" "-" "-"
        some ((do
          let a ← zdtNew a; let b ← zdtNew b; let o ← o
          match zdtDiff false tz a b o with
          | none => Out.err .assert
          | some r => do
            let d ← r
            let _ ← zdtAdd tz a d .constrain
            pure (1 : Int) : Out Int).render toString)
      | _ => none
    else if op == "zdt_sod_spec" || op == "zdt_hid_spec" then do
      let tz ← zone? z; let ns ← int? ns
      some ((do
        let ns ← zdtNew ns
        let dt ← tz.isoDateTimeFor ns
        let dayStart := toUncheckedEpochNanoseconds dt.date IsoTime.midnight
        match tz with
        | .offset m =>
          if op == "zdt_sod_spec" then do let e ← TZ.epochNs (dayStart - m * 60000000000); pure (toString e)
          else do
            TZ.validDayRange (IsoDate.balance dt.date.year dt.date.month (dt.date.day + 1))
            let _ ← TZ.epochNs (dayStart - m * 60000000000)
            let _ ← TZ.epochNs (dayStart + 86400000000000 - m * 60000000000)
            pure "24"
        | .named zz =>
          if op == "zdt_sod_spec" then
            match ZoneSpec.startOfDay zz dayStart with
            | some t => do let e ← TZ.epochNs t; pure (toString e)
            | none => Out.err .range
          else do
            -- both day boundaries must be representable instants of representable days
            TZ.validDayRange dt.date
            TZ.validDayRange (IsoDate.balance dt.date.year dt.date.month (dt.date.day + 1))
            let _ ← (match ZoneSpec.startOfDay zz dayStart with | some t => TZ.epochNs t | none => Out.err .range)
            let _ ← (match ZoneSpec.startOfDay zz (dayStart + 86400000000000) with | some t => TZ.epochNs t | none => Out.err .range)
            match ZoneSpec.dayLength zz dayStart with
            | some len =>
              -- whole hours print as an integer, otherwise as hours + remaining nanoseconds
              pure (if len % 3600000000000 = 0 then toString (len / 3600000000000)
                    else s!"{len / 3600000000000}+{len % 3600000000000}ns")
            | none => Out.err .range : Out String).render id)
    else if op == "zdt_sod" then do
      let tz ← zone? z; let ns ← int? ns
      some ((do let ns ← zdtNew ns; zdtStartOfDay tz ns : Out Int).render toString)
    else if op == "zdt_hid" then do
      let tz ← zone? z; let ns ← int? ns
      some ((do let ns ← zdtNew ns; zdtHoursInDay tz ns : Out Int).render toString)
    else if op == "zdt_wpt" then do
      let tz ← zone? z; let ns ← int? ns
      let f ← ints? rest
      match f with
      | [h, mi, s, ms, us, n] =>
        some ((do
          let ns ← zdtNew ns
          let t ← plainTimeTryNew h mi s ms us n
          let e ← zdtWithPlainTime tz ns t
          pure e : Out Int).render toString)
      | _ => none
    else none
  | _ => none

end Driver
