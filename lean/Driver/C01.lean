import Driver.Util
import TemporalModel.Model.PlainDateBasic
namespace Driver
open TemporalModel

def fnvStep (h : UInt64) (v : Int) : UInt64 := Id.run do
  let mut h := h
  let u : UInt64 := (Int.toInt64 v).toUInt64
  for i in [0:8] do
    let b := (u >>> (UInt64.ofNat (8 * i))) &&& 0xff
    h := (h ^^^ b) * 0x100000001b3
  return h

def dayRecord (n : Int) : List Int :=
  let r := NS.ymdFromEpochDays n
  let d : IsoDate := ⟨r.1, r.2.1, r.2.2⟩
  let i := dateInfo d
  [r.1, r.2.1, r.2.2, NS.epochDaysFromGregorianDate r.1 r.2.1 r.2.2, i.dayOfWeek, i.dayOfYear, i.weekOfYear,
   i.yearOfWeek, i.daysInMonth, i.daysInYear, if i.inLeapYear then 1 else 0]

def blockHash (lo hi : Int) : UInt64 := Id.run do
  let mut h : UInt64 := 0xcbf29ce484222325
  let mut n := lo
  while n ≤ hi do
    for v in dayRecord n do
      h := fnvStep h v
    n := n + 1
  return h

def handleC01 : Handler
  | ["k2d", y, m, d] => do
      let y ← int? y; let m ← int? m; let d ← int? d
      some s!"ok {NS.epochDaysFromGregorianDate y m d}"
  | ["d2k", n] => do
      let n ← int? n
      let r := NS.ymdFromEpochDays n
      some s!"ok {r.1} {r.2.1} {r.2.2}"
  | ["date", y, m, d] => do
      let y ← int? y; let m ← int? m; let d ← int? d
      some ((plainDateTryNew y m d).render (fun x => (dateInfo x).render))
  | ["adddays", y, m, d, k] => do
      let y ← int? y; let m ← int? m; let d ← int? d; let k ← int? k
      some ((plainDateTryNew y m d >>= fun x => plainDateAddDays x k).render IsoDate.render)
  | ["untildays", y1, m1, d1, y2, m2, d2] => do
      let f ← ints? [y1, m1, d1, y2, m2, d2]
      match f with
      | [y1, m1, d1, y2, m2, d2] =>
        let r : Out Int := do
          let a ← plainDateTryNew y1 m1 d1; let b ← plainDateTryNew y2 m2 d2
          pure (plainDateUntilDays a b)
        some (r.render toString)
      | _ => none
  | ["cmpdate", y1, m1, d1, y2, m2, d2] => do
      let f ← ints? [y1, m1, d1, y2, m2, d2]
      match f with
      | [y1, m1, d1, y2, m2, d2] =>
        let r : Out Int := do
          let a ← plainDateTryNew y1 m1 d1; let b ← plainDateTryNew y2 m2 d2
          pure (a.cmp b)
        some (r.render toString)
      | _ => none
  | ["dt_ns", y, m, d, h, mi, s, ms, us, ns] => do
      let f ← ints? [y, m, d, h, mi, s, ms, us, ns]
      match f with
      | [y, m, d, h, mi, s, ms, us, ns] =>
        some ((IsoDateTime.asNanoseconds ⟨⟨y, m, d⟩, ⟨h, mi, s, ms, us, ns⟩⟩).render toString)
      | _ => none
  | ["ns_dt", ns, off] => do
      let ns ← int? ns; let off ← int? off
      some ((instantTryNew ns >>= fun n => IsoDateTime.fromEpochNanos n off).render IsoDateTime.render)
  | ["pdt", y, m, d, h, mi, s, ms, us, ns] => do
      let f ← ints? [y, m, d, h, mi, s, ms, us, ns]
      match f with
      | [y, m, d, h, mi, s, ms, us, ns] =>
        let r : Out IsoDateTime := do
          let t ← plainTimeTryNew h mi s ms us ns
          let dd ← IsoDate.regulate y m d .reject
          IsoDateTime.new dd t
        some (r.render IsoDateTime.render)
      | _ => none
  | ["blk", lo, hi] => do
      let lo ← int? lo; let hi ← int? hi
      some s!"ok {blockHash lo hi}"
  | _ => none

end Driver
