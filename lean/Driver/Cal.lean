import Driver.Util
import Driver.C17
import Driver.Tzdb
import TemporalModel.Model.CalGlue
import TemporalModel.Model.HebrewGlue
import TemporalModel.Model.Format
import TemporalModel.Spec.CalLaws
import TemporalModel.Spec.Grammar
import TemporalModel.Spec.GrammarOps
namespace Driver
open TemporalModel Cal

def calId? (s : String) : Option CalId := CalId.all.find? (fun c => c.name == s)

def optStr? (s : String) : Option String := if s == "-" then none else some s

/-- ISO date of the line, as `PlainDate::try_new(..)?.with_calendar(..)` accepts it. -/
def isoOf (y m d : Int) : Out IsoDate := plainDateTryNew y m d

def nextIso (i : IsoDate) : Out IsoDate :=
  let n := Greg.nextDay i.year i.month i.day
  plainDateTryNew n.1 n.2.1 n.2.2

def renderOut (o : Out String) : String := o.render id

/-- era year month code day, as printed by the harness for a resolved record -/
def renderResolved (r : Option String × Int × MonthCode × Int) : String :=
  s!"{r.1.getD "-"} {r.2.1} {r.2.2.1.render} {r.2.2.2}"

def calPartial? (ss : List String) : Option (Out CalPartial) :=
  match ss with
  | [era, ey, y, m, c, d] => do
    let ey ← optInt? ey; let y ← optInt? y; let m ← optInt? m; let c ← monthCode? c; let d ← optInt? d
    match c with
    | some (.err k) => some (.err k)
    | some .panic => some .panic
    | some (.ok c) => some (.ok ⟨optStr? era, ey, y, m, some c, d⟩)
    | none => some (.ok ⟨optStr? era, ey, y, m, none, d⟩)
  | _ => none

/-- one route of `cal_rt`: 1 the same day, 0 another day, else the error kind -/
def route (cal : CalId) (iso : IsoDate) (p : CalPartial) : String :=
  match plainDateFromPartialCal cal p (some .reject) with
  | .ok r => if r = iso then "1" else "0"
  | .err k => k.name
  | .panic => "panic"

/-- `cal_rt` as the modelled code computes it. -/
def calRt (cal : CalId) (iso : IsoDate) : String :=
  if cal = .iso8601 then "code=1 month=1 era=- iso=1" else
  match fields cal iso with
  | none =>
    -- not modelled: the law itself
    s!"code=1 month=1 era={if (reportedEras cal).isEmpty then "-" else "1"} iso=1"
  | some f =>
    let a : CalPartial := ⟨none, none, some f.year, none, some f.monthCode, some f.day⟩
    let b : CalPartial := ⟨none, none, some f.year, some f.month, none, some f.day⟩
    let e := match f.era, f.eraYear with
      | some era, some ey => route cal iso ⟨some era, some ey, none, none, some f.monthCode, some f.day⟩
      | _, _ => "-"
    -- a failing route is marked with the circumstance it failed under (the harness does the same): the reported
    -- year is not positive; (month differs from the month code's number / historic era code: never in these calendars)
    let mark (r : String) : String := if r = "1" then r else if f.year ≤ 0 then r ++ "@y<=0" else r
    s!"code={mark (route cal iso a)} month={mark (route cal iso b)} era={e} iso=1"

/-- `cal_rt` for `hebrew` as the code computes it (Model/Hebrew.lean + the crate's field resolution). -/
def calRtHeb (iso : IsoDate) : Out String := do
  let f ← hebrewFieldsChecked (Greg.dayNumber iso.year iso.month iso.day)
  let routeH (p : CalPartial) : String :=
    match plainDateFromPartialHeb p (some .reject) with
    | .ok r => if r = iso then "1" else "0"
    | .err k => k.name
    | .panic => "panic"
  let shifted : Bool := f.month ≠ (f.monthCode.num : Int)
  let mark (r : String) (byMonth : Bool) : String :=
    if r = "1" then r
    else r ++ (if f.day = 0 then "@day0" else "") ++ (if byMonth && shifted then "@shift" else "") ++
         (if f.year ≤ 0 then "@y<=0" else "")
  let a := routeH ⟨none, none, some f.year, none, some f.monthCode, some f.day⟩
  let b := routeH ⟨none, none, some f.year, some f.month, none, some f.day⟩
  let e0 := routeH ⟨f.era, f.eraYear, none, none, some f.monthCode, some f.day⟩
  let e : String := if e0 != "1" && f.day == 0 then e0 ++ "@day0" else e0
  pure s!"code={mark a false} month={mark b true} era={e} iso=1"

/-- The law `cal_rt` states, whatever the code does. -/
def calRtSpec (cal : CalId) : String :=
  s!"code=1 month=1 era={if (reportedEras cal).isEmpty then "-" else "1"} iso=1"

/-- Parse the eleven reported fields. -/
def fields? (ss : List String) : Option CalFields :=
  match ss with
  | [era, ey, y, m, code, d, doy, dim, diy, miy, leap] => do
    let ey ← optInt? ey; let y ← int? y; let m ← int? m; let d ← int? d; let doy ← int? doy; let dim ← int? dim
    let diy ← int? diy; let miy ← int? miy
    let code ← (match monthCode? code with | some (some (.ok c)) => some c | _ => none)
    some ⟨optStr? era, ey, y, m, code, d, doy, dim, diy, miy, leap == "1"⟩
  | _ => none

/-- `Calendar::from_str`: a date-time string's calendar annotation, else the text itself as an identifier. -/
def calFromStr (cs : List Char) : Out CalId :=
  match Gram.calendarOfString cs with
  | some c => (match c with | none => .ok .iso8601 | some v => calFromId v)
  | none => calFromId cs

/-- The reported fields: the modelled calendars of Model/Calendar.lean, and `hebrew` (Model/Hebrew.lean, as coded, in
    a build with debug assertions - which is how the harness is built). -/
def fieldsX (cal : CalId) (iso : IsoDate) : Option (Out CalFields) :=
  if cal = .hebrew then some (hebrewFieldsChecked (Greg.dayNumber iso.year iso.month iso.day))
  else (fields cal iso).map .ok

def handleCal (toks : List String) : Option String :=
  match toks with
  | ["cal_fields", cal, y, m, d] => do
    let cal ← calId? cal; let y ← int? y; let m ← int? m; let d ← int? d
    some (renderOut (do
      let iso ← isoOf y m d
      match fieldsX cal iso with
      | some f => do let f ← f; pure f.render
      | none => pure "unmodelled"))
  | ["cal_next", cal, y, m, d] => do
    let cal ← calId? cal; let y ← int? y; let m ← int? m; let d ← int? d
    some (renderOut (do
      let iso ← isoOf y m d
      let nx ← nextIso iso
      match fieldsX cal iso, fieldsX cal nx with
      | some a, some b => do let a ← a; let b ← b; pure s!"{a.render} | {b.render}"
      | _, _ => pure "unmodelled"))
  | ["cal_hfrom", "hebrew", era, ey, y, m, c, d, ov] => do
    let p ← calPartial? [era, ey, y, m, c, d]
    let ov ← Overflow.ofName? ov
    some (renderOut (do
      let p ← p
      let r ← plainDateFromPartialHeb p (some ov)
      pure r.render))
  | ["cal_wc", _, c1, c2, y, m, d] => do
    -- changing the calendar keeps the ISO fields / the instant: a law with a constant expected outcome (for a date
    -- that exists)
    let _ ← calId? c1; let _ ← calId? c2
    let y ← int? y; let m ← int? m; let d ← int? d
    some (renderOut (do let _ ← isoOf y m d; pure "same"))
  | ["cal_law", _, _, _, _] => some "fed"
  | "cal_law_chk" :: cal :: y :: m :: d :: "|" :: rest => do
    let _ ← calId? cal; let _ ← int? y; let _ ← int? m; let _ ← int? d
    -- rest: ok <11 fields> | <11 fields>   or   err <kind>
    match rest with
    | "ok" :: fs =>
      if fs.length ≠ 23 then some "bad shape" else
      match fields? (fs.take 11), fields? (fs.drop 12) with
      | some a, some b =>
        if ¬ FieldsOk a then some "bad bounds-today"
        else if ¬ FieldsOk b then some "bad bounds-next"
        else if ¬ Consecutive a b then some "bad not-consecutive"
        else some "ok"
      | _, _ => some "bad unparsable"
    | ["err", "range"] =>
      -- only the last representable day has no successor
      if y == "275760" ∧ m == "9" ∧ d == "13" then some "ok" else some "bad error"
    | _ => some "bad outcome"
  | ["cal_rt", cal, y, m, d] => do
    let cal ← calId? cal; let y ← int? y; let m ← int? m; let d ← int? d
    some (renderOut (do let iso ← isoOf y m d; if cal = .hebrew then calRtHeb iso else pure (calRt cal iso)))
  | ["cal_rt_spec", cal, y, m, d] => do
    let cal ← calId? cal; let y ← int? y; let m ← int? m; let d ← int? d
    some (renderOut (do let _ ← isoOf y m d; pure (calRtSpec cal)))
  | ["cal_from", cal, era, ey, y, m, c, d, ov] => do
    let cal ← calId? cal
    let p ← calPartial? [era, ey, y, m, c, d]
    let ov ← Overflow.ofName? ov
    some (renderOut (do
      let p ← p
      let r ← (if cal = .iso8601 then
                 plainDateFromPartial ⟨p.year, p.month, p.monthCode, p.day, p.era.isSome, p.eraYear⟩ (some ov)
               else plainDateFromPartialCal cal p (some ov))
      pure r.render))
  | ["cal_with", cal, y, m, d, era, ey, yr, mo, c, dd, ov] => do
    let cal ← calId? cal; let y ← int? y; let m ← int? m; let d ← int? d
    let p ← calPartial? [era, ey, yr, mo, c, dd]
    let ov ← (if ov == "-" then some none else (Overflow.ofName? ov).map some)
    some (renderOut (do
      let iso ← isoOf y m d
      let p ← p
      let r ← (if cal = .iso8601 then
                 plainDateWith iso ⟨p.year, p.month, p.monthCode, p.day, p.era.isSome, p.eraYear⟩ ov
               else match fields cal iso with
                 | some f => plainDateWithCal cal f p ov
                 | none => Out.err .assert)
      pure r.render))
  | ["cal_dtwith", cal, y, m, d, era, ey, yr, mo, c, dd, ov] => do
    let cal ← calId? cal; let y ← int? y; let m ← int? m; let d ← int? d
    let p ← calPartial? [era, ey, yr, mo, c, dd]
    let ov ← (if ov == "-" then some none else (Overflow.ofName? ov).map some)
    some (renderOut (do
      let iso ← isoOf y m d
      let p ← p
      let r ← (if cal = .iso8601 then
                 plainDateWith iso ⟨p.year, p.month, p.monthCode, p.day, p.era.isSome, p.eraYear⟩ ov
               else match fields cal iso with
                 | some f => plainDateWithCal cal f p ov
                 | none => Out.err .assert)
      let dt ← IsoDateTime.new r ⟨12, 30, 0, 0, 0, 0⟩
      pure s!"{dt.date.render} 12 30"))
  | ["cal_ymwith", cal, y, m, d, era, ey, yr, mo, c, ov] => do
    let cal ← calId? cal; let y ← int? y; let m ← int? m; let d ← int? d
    let p ← calPartial? [era, ey, yr, mo, c, "-"]
    let ov ← (if ov == "-" then some none else (Overflow.ofName? ov).map some)
    some (renderOut (do
      let iso ← isoOf y m d
      let p ← p
      match fields cal iso with
      | none => Out.err .assert
      | some f => do
        let ref ← dateToYearMonthCal cal f
        match fields cal ref with
        | none => Out.err .assert
        | some g => do
          let r ← yearMonthFromPartialCal cal (mergeFieldsCal g p) (ov.getD .constrain)
          pure (String.ofList (Fmt.date r))))
  | ["cal_ymfields", cal, y, m, d] => do
    let cal ← calId? cal; let y ← int? y; let m ← int? m; let d ← int? d
    some (renderOut (do
      let iso ← isoOf y m d
      match fields cal iso with
      | none => Out.err .assert
      | some f => do
        let ref ← dateToYearMonthCal cal f
        match fields cal ref with
        | none => Out.err .assert
        | some g =>
          pure s!"{g.era.getD "-"} {optStr toString g.eraYear} {g.year} {g.month} {g.monthCode.render} {g.daysInMonth} {g.daysInYear} {g.monthsInYear} {if g.inLeapYear then 1 else 0}"))
  | ["cal_withid_spec", _, y, m, d, _] => do
    let y ← int? y; let m ← int? m; let d ← int? d
    some (renderOut (do let iso ← isoOf y m d; pure iso.render))
  | ["cal_withid_spec", _, y, m, d] => do
    -- the law, for every calendar: a date updated with its own day is the same date
    let y ← int? y; let m ← int? m; let d ← int? d
    some (renderOut (do let iso ← isoOf y m d; pure iso.render))
  | "cal_withid" :: cal :: y :: m :: d :: rest => do
    let cal ← calId? cal; let y ← int? y; let m ← int? m; let d ← int? d
    let which := (rest.head?.getD "d").toList
    if rest.length > 1 then none else
    some (match isoOf y m d with
      | .err k => "err " ++ k.name
      | .panic => "panic"
      | .ok iso =>
        if cal = .iso8601 then
          let p : PartialDate := ⟨if which.contains 'y' || which.contains 'e' then some iso.year else none, none,
            if which.contains 'c' then some ⟨iso.month.toNat, false⟩ else none,
            if which.contains 'd' then some iso.day else none, false, none⟩
          (plainDateWith iso p (some .reject)).render IsoDate.render
        else match fields cal iso with
          | some f =>
            let byEra := which.contains 'e' && f.era.isSome && f.eraYear.isSome
            let p : CalPartial := ⟨if byEra then f.era else none, if byEra then f.eraYear else none,
              if which.contains 'y' || (which.contains 'e' && !byEra) then some f.year else none, none,
              if which.contains 'c' then some f.monthCode else none,
              if which.contains 'd' then some f.day else none⟩
            -- a failure is marked with the circumstance of the date, as the harness does
            match plainDateWithCal cal f p (some .reject) with
            | .ok r => "ok " ++ r.render
            | .err k => "err " ++ k.name ++ (if f.year ≤ 0 then "@y<=0" else "")
            | .panic => "panic"
          | none => "ok " ++ iso.render)
  | ["cal_toym", cal, y, m, d] => do
    let cal ← calId? cal; let y ← int? y; let m ← int? m; let d ← int? d
    some (renderOut (do
      let iso ← isoOf y m d
      if cal = .iso8601 then do
        let r ← dateToYearMonth iso
        pure (String.ofList (Fmt.yearMonth r "iso8601" .never))
      else match fields cal iso with
        | some f => do let r ← dateToYearMonthCal cal f; pure (String.ofList (Fmt.date r))
        | none => Out.err .assert))
  | ["cal_toymc", _, y, m, d] => do
    let y ← int? y; let m ← int? m; let d ← int? d
    some (renderOut (do let _ ← isoOf y m d; pure "first-of-month"))
  | ["cal_ymfrom", cal, era, ey, y, m, c, d, ov] => do
    let cal ← calId? cal
    let p ← calPartial? [era, ey, y, m, c, d]
    let ov ← Overflow.ofName? ov
    some (renderOut (do
      let p ← p
      if cal = .iso8601 then do
        let r ← yearMonthFromPartial ⟨p.year, p.month, p.monthCode, p.day, p.era.isSome, p.eraYear⟩ ov
        pure (String.ofList (Fmt.yearMonth r "iso8601" .never))
      else do
        let r ← yearMonthFromPartialCal cal p ov
        pure (String.ofList (Fmt.date r))))
  | ["cal_res", cal, era, ey, y, m, c, d] => do
    let cal ← calId? cal
    let p ← calPartial? [era, ey, y, m, c, d]
    some (renderOut (do let p ← p; let r ← resolveFields cal p; pure (renderResolved r)))
  | ["cal_fromc", cal, era, ey, y, m, c, d, ov] => do
    let cal ← calId? cal
    let p ← calPartial? [era, ey, y, m, c, d]
    let _ ← Overflow.ofName? ov
    -- the crate's part of from_partial: either it refuses (kind), or the library decides
    some (match p with
      | .err k => s!"err {k.name}"
      | .panic => "panic"
      | .ok p =>
        let yearCheck := p.year.isSome || (p.era.isSome && p.eraYear.isSome)
        let monthCheck := p.month.isSome || p.monthCode.isSome
        if !yearCheck || !monthCheck || p.day.isNone then "glue type"
        else match resolveFields cal p with
          | .err k => s!"glue {k.name}"
          | .panic => "panic"
          | .ok _ => "lib")
  | ["cal_id", h] => do
    let s ← unhex h
    some (renderOut (do let c ← calFromStr s.toList; pure c.name))
  | _ => none

end Driver
