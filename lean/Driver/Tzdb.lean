import Driver.Util
import Std.Data.HashMap
import TemporalModel.Model.Tzif
import TemporalModel.Model.Format
namespace Driver
open TemporalModel

abbrev ZoneTable := Std.HashMap String RawZone

def parsePair (s : String) : Option (Int × Int) :=
  match s.splitOn ":" with
  | [a, b] => do let a ← a.toInt?; let b ← b.toInt?; some (a, b)
  | _ => none

/-- One line of `harness zones`: name TAB footer|- TAB off:dst,… TAB t:idx,…|- -/
def parseZoneLine (line : String) : Option (String × RawZone) :=
  match line.splitOn "\t" with
  | [name, footer, types, trans] => do
    let tys ← (types.splitOn ",").mapM parsePair
    let trs ← if trans == "-" then some [] else (trans.splitOn ",").mapM parsePair
    let ft := if footer == "-" then none else PosixParse.tz footer
    -- a footer that does not parse is kept as "absent" and flagged by the name prefix
    some (name, ⟨(tys.map (fun p => (p.1, decide (p.2 ≠ 0)))).toArray, trs.map (fun p => (p.1, p.2.toNat)), ft⟩)
  | _ => none

def loadZones (path : String) : IO ZoneTable := do
  let txt ← IO.FS.readFile path
  let mut tbl : ZoneTable := {}
  for l in txt.splitOn "\n" do
    match parseZoneLine l with
    | some (n, z) => tbl := tbl.insert n z
    | none => pure ()
  return tbl

def hexVal (c : Char) : Option Nat :=
  if c.isDigit then some (c.toNat - '0'.toNat)
  else if 'a' ≤ c ∧ c ≤ 'f' then some (c.toNat - 'a'.toNat + 10) else none

def unhex (s : String) : Option String :=
  if s == "-" then some "" else
  let rec go : List Char → ByteArray → Option ByteArray
    | [], acc => some acc
    | a :: b :: rest, acc => do let x ← hexVal a; let y ← hexVal b; go rest (acc.push (x * 16 + y).toUInt8)
    | _, _ => none
  (go s.toList ByteArray.empty).bind String.fromUTF8?

def lower (s : String) : String := String.ofList (s.toList.map Char.toLower)

/-- Local date-time → seconds of the reading taken as UTC. -/
def localSeconds (f : List Int) : Option Int :=
  match f with
  | [y, m, d, h, mi, s] =>
    -- (the harness balances the date fields first: `iso_date_balance`)
    let b := IsoDate.balance y m d
    some (Greg.dayNumber b.year b.month b.day * 86400 + h * 3600 + mi * 60 + s)
  | _ => none

def handleTzdb (tbl : ZoneTable) (lowerNames : Std.HashMap String Unit) (toks : List String) : Option String :=
  match toks with
  | ["tzdb_off", name, t] => do
    let t ← int? t
    match tbl[name]? with
    | none => some "?unknown-zone"
    | some z => some s!"ok {z.offsetAt t}"
  | "tzdb_loc" :: name :: rest => do
    let f ← ints? rest
    let l ← localSeconds f
    match tbl[name]? with
    | none => some "?unknown-zone"
    | some z =>
      let xs := z.possible l
      some ("ok " ++ (if xs.isEmpty then "-" else joinSp (xs.map toString)))
  | "tzdb_locns" :: name :: rest => do
    -- a local reading with a sub-second part: the same instants as for its whole second, carrying the part along
    -- (offsets are whole seconds, so the reading's second decides)
    let f ← ints? (rest.take 6)
    let l ← localSeconds f
    match (rest.drop 6) with
    | [ms, us, ns] => do
      let ms ← int? ms; let us ← int? us; let ns ← int? ns
      let sub := ms * 1000000 + us * 1000 + ns
      match tbl[name]? with
      | none => some "?unknown-zone"
      | some z =>
        let xs := z.possible l
        some ("ok " ++ (if xs.isEmpty then "-" else joinSp (xs.map (fun x => toString (x * 1000000000 + sub)))))
    | _ => none
  | ["tzdb_id", h] => do
    let s ← unhex h
    -- exactly the IANA names, case-insensitively
    some (if lowerNames.contains (lower s) then "ok 1" else "ok 0")
  | ["tzdb_ord", _, _, _] => some "ok 1"
  | ["tzdb_zstr", name, ns] => do
    -- ZonedDateTime in a named zone through the provider: default string and wall-clock fields, from the offset the
    -- zone's table gives for the instant's second
    let ns ← int? ns
    match tbl[name]? with
    | none => some "?unknown-zone"
    | some z =>
      some ((do
        let ns ← instantTryNew ns
        let off := z.offsetAt (ns / 1000000000) * 1000000000
        let dt ← IsoDateTime.fromEpochNanos ns off
        let s := Fmt.date dt.date ++ ['T'] ++ Fmt.time dt.time .auto ++ Fmt.offsetMinutes (Fmt.offsetNsToMinutes off) ++
          ['['] ++ name.toList ++ [']']
        pure s!"{String.ofList s} | {dt.date.year} {dt.date.month} {dt.date.day} {dt.time.hour} {dt.time.minute} {dt.time.second} {off}"
        : Out String).render id)
  | ["tzdb_istr", name, ns] => do
    let ns ← int? ns
    match tbl[name]? with
    | none => some "?unknown-zone"
    | some z =>
      some ((do
        let ns ← instantTryNew ns
        let off := z.offsetAt (ns / 1000000000) * 1000000000
        let dt ← IsoDateTime.fromEpochNanos ns off
        pure (String.ofList (Fmt.date dt.date ++ ['T'] ++ Fmt.time dt.time .auto ++ Fmt.offsetMinutes (Fmt.offsetNsToMinutes off)))
        : Out String).render id)
  | ["tzdb_offns", name, t, sub] => do
    -- an instant with a sub-second part lies in the second that starts at or before it
    let t ← int? t
    let sub ← int? sub
    match tbl[name]? with
    | none => some "?unknown-zone"
    | some z => some s!"ok {z.offsetAt ((t * 1000000000 + sub) / 1000000000)}"
  -- answers do not depend on the history of queries (C15_cache_history_independent)
  | ["tzdb_hist", _, _] => some "ok same"
  | ["tzdb_case", _, _, _] => some "ok same"
  | _ => none

end Driver
