import Driver.C01
import Driver.C07
import Driver.C10
import Driver.C09
import Driver.C04
import Driver.C05
import Driver.C17
import Driver.C08
import Driver.C03
import Driver.Zone
import Driver.Tzdb
import Driver.Fmt
import Driver.Parse
import Driver.Cal
import Driver.Api
namespace Driver

def handlers : List Handler := [handleC01, handleC07, handleC10, handleC09, handleC04, handleC05, handleC17, handleC08, handleC03, handleZone, handleFmt, handleParse, handleCal, handleApi]

def dispatch (tbl : ZoneTable) (names : Std.HashMap String Unit) (line : String) : String :=
  let toks := (line.trimAscii.toString.splitOn " ").filter (· ≠ "")
  match handlers.findSome? (fun h => h toks) with
  | some out => out
  | none =>
    match handleTzdb tbl names toks with
    | some out => out
    | none => "?bad-op"

partial def loop (tbl : ZoneTable) (names : Std.HashMap String Unit) (hin : IO.FS.Stream) (hout : IO.FS.Stream) : IO Unit := do
  let line ← hin.getLine
  if line.isEmpty then return ()
  hout.putStrLn (dispatch tbl names line)
  loop tbl names hin hout

end Driver

def main : IO Unit := do
  let hin ← IO.getStdin
  let hout ← IO.getStdout
  -- the zone table dumped by `harness zones` (C15), if any
  let tbl ← (do
    match (← IO.getEnv "TEMPORAL_ZONES") with
    | some p => if (← System.FilePath.pathExists p) then Driver.loadZones p else pure {}
    | none => pure {})
  -- the IANA names: every TZif file of the zoneinfo tree except the installation's own artefacts
  let notZones := ["localtime", "posixrules", "Factory"]
  let names : Std.HashMap String Unit :=
    tbl.fold (fun acc k _ => if notZones.contains k then acc else acc.insert (Driver.lower k) ()) {}
  Driver.loop tbl names hin hout
