import Driver.C01
import Driver.C07
import Driver.C10
import Driver.C09
import Driver.C04
import Driver.C05
import Driver.C17
import Driver.C08
import Driver.C03
import Driver.Zone
namespace Driver

def handlers : List Handler := [handleC01, handleC07, handleC10, handleC09, handleC04, handleC05, handleC17, handleC08, handleC03, handleZone]

def dispatch (line : String) : String :=
  let toks := (line.trimAscii.toString.splitOn " ").filter (· ≠ "")
  match handlers.findSome? (fun h => h toks) with
  | some out => out
  | none => "?bad-op"

partial def loop (hin : IO.FS.Stream) (hout : IO.FS.Stream) : IO Unit := do
  let line ← hin.getLine
  if line.isEmpty then return ()
  hout.putStrLn (dispatch line)
  loop hin hout

end Driver

def main : IO Unit := do
  let hin ← IO.getStdin
  let hout ← IO.getStdout
  Driver.loop hin hout
