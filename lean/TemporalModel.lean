import TemporalModel.Model.Prim
import TemporalModel.Model.Round
import TemporalModel.Spec.Round
import TemporalModel.Props.C07
