-- Root of the proof library: every property module (each pulls in its model, spec and lemma files).
import TemporalModel.Props.C01
import TemporalModel.Props.C02
import TemporalModel.Props.C03
import TemporalModel.Props.C04
import TemporalModel.Props.C05
import TemporalModel.Props.C06
import TemporalModel.Props.C07
import TemporalModel.Props.C08
import TemporalModel.Props.C09
import TemporalModel.Props.C10
import TemporalModel.Props.C13
import TemporalModel.Props.C14
import TemporalModel.Props.C15
import TemporalModel.Props.C17
import TemporalModel.Props.C18
import TemporalModel.Props.C19
import TemporalModel.Props.C20
